package main

import (
	"fmt"
	"os"
	"path/filepath"
	"sort"
	"strings"
	"time"

	"verif/engine/sym"
)

func (r *checkRun) writeEvidence(results []hresT, validated, sampled int, inconclusive, broken []string, kfSeen map[string]bool, nviol int, reach map[string]bool) {
	states, transitions, asserts, discharged := 0, 0, 0, 0
	queries := map[string]int{}
	solverS := 0.0
	funcs := map[string]bool{}
	stubs := map[string]bool{}
	var samples []any
	perHarness := []any{}
	schedPoints := 0
	for _, hr := range results {
		done := 0
		for _, p := range hr.hr.Paths {
			if p.Status == sym.StDone {
				done++
			}
			transitions += len(p.Decisions)
			schedPoints += p.SchedPoints
			asserts += p.Asserts
			discharged += p.Discharged
			for f := range p.Funcs {
				funcs[f] = true
			}
			for f := range p.Stubs {
				stubs[f] = true
			}
		}
		states += len(hr.hr.Paths)
		for k, v := range hr.hr.Queries {
			queries[k] += v
		}
		solverS += hr.hr.SolverTime.Seconds()
		perHarness = append(perHarness, map[string]any{
			"harness": hr.h.fn.Name(), "package": hr.h.dir, "paths": len(hr.hr.Paths), "completed": done,
			"wall_s": round2(hr.hr.Wall.Seconds()), "solver_s": round2(hr.hr.SolverTime.Seconds()), "queries": hr.hr.Queries,
		})
		// a few sample paths with their models
		n := 0
		for _, p := range hr.hr.Paths {
			if p.Status == sym.StDone && p.Model != nil && n < 2 {
				samples = append(samples, map[string]any{"harness": hr.h.fn.Name(), "decisions": p.Decisions, "inputs": p.Model, "observed": p.ObsVals, "reached": p.Reached})
				n++
			}
		}
	}
	if len(samples) == 0 {
		samples = append(samples, "no completed path")
	}
	// functions of the code under test that were executed, with source hashes of their files
	var fnList []string
	fileHashes := map[string]string{}
	for f := range funcs {
		if strings.Contains(f, modPath) && !strings.Contains(f, "VT_") && !strings.Contains(f, "/internal/vt") {
			fnList = append(fnList, strings.ReplaceAll(f, modPath+"/", ""))
		}
	}
	sort.Strings(fnList)
	for _, hf := range r.ld.files {
		fileHashes[strings.TrimPrefix(hf.real, verifDir+"/")] = fileSHA(hf.real)
	}
	for dir := range r.ld.pkgs {
		ents, _ := os.ReadDir(filepath.Join(repoDir, dir))
		for _, e := range ents {
			if strings.HasSuffix(e.Name(), ".go") && !strings.HasSuffix(e.Name(), "_test.go") {
				fileHashes[filepath.Join(dir, e.Name())] = fileSHA(filepath.Join(repoDir, dir, e.Name()))
			}
		}
	}
	var stubList []string
	for s := range stubs {
		stubList = append(stubList, s)
	}
	sort.Strings(stubList)
	var reachList []string
	for k := range reach {
		reachList = append(reachList, k)
	}
	sort.Strings(reachList)
	var kfs []string
	for k := range kfSeen {
		kfs = append(kfs, k)
	}
	sort.Strings(kfs)
	if transitions == 0 {
		transitions = states // each path is at least one transition from the initial state
	}
	ev := map[string]any{
		"property_id": r.prop,
		"tier":        r.tier,
		"seed":        r.seed,
		"level":       "model_checking",
		"coverage": map[string]any{
			"states":                        states,
			"transitions":                   transitions,
			"traces_validated_against_impl": validated,
			"samples":                       samples,
			"explanation": "bounded symbolic execution of the real code (go/ssa of /repo's working tree) with an SMT solver deciding every branch and every assertion; " +
				"states = symbolic paths explored, transitions = branch/scheduler decisions taken; each assertion is the query pc AND NOT(assertion)",
			"assertion_queries":                   asserts,
			"assertions_discharged":               discharged,
			"paths_sampled_for_native_validation": sampled,
			"scheduler_decision_points":           schedPoints,
			"solver_queries":                      queries,
			"solver_s":                            round2(solverS),
			"solver":                              "z3 4.8.12 (-in, push/pop), per-query timeout " + fmt.Sprint(r.cfg.TimeoutMs) + " ms (0 = default 20000)",
			"harnesses":                           perHarness,
			"functions_encoded":                   fnList,
			"stubs_used":                          stubList,
			"source_sha256_16":                    fileHashes,
			"reach_witnesses":                     reachList,
			"known_findings_seen":                 kfs,
			"inconclusive":                        dedupe(inconclusive),
			"broken":                              dedupe(broken),
			"bounds":                              r.boundsNote(),
		},
		"assumptions": r.assumptions(stubList),
		"wall_s":      round2(time.Since(r.t0).Seconds()),
		"violations":  nviol,
	}
	writeJSON(filepath.Join(outDir, "evidence", r.prop+".json"), ev)
}

func round2(f float64) float64 { return float64(int(f*100+0.5)) / 100 }

func (r *checkRun) boundsNote() string {
	b, err := os.ReadFile(filepath.Join(verifDir, "harness", r.prop, "BOUNDS.txt"))
	if err != nil {
		return "see DESIGN.md section for " + r.prop
	}
	return strings.TrimSpace(string(b))
}

func (r *checkRun) assumptions(stubs []string) []string {
	out := []string{
		"go/ssa (x/tools v0.29.0) faithfully represents the Go source; the symgo interpreter implements SSA semantics (validated per run by native replay of sampled paths)",
		"z3 4.8.12 answers sat/unsat correctly; unknown/timeouts/(error lines are reported as inconclusive, never as pass",
		"library calls listed under stubs_used follow their documented contract (DESIGN.md 2.4)",
		"code between synchronisation operations is data-race free (scheduler choices only at sync operations)",
	}
	return out
}
