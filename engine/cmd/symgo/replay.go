package main

import (
	"encoding/json"
	"fmt"
	"os"
)

// cmdReplay re-runs a recorded counterexample natively against the current /repo.
func cmdReplay(args []string) int {
	if len(args) < 1 {
		fmt.Fprintln(os.Stderr, "usage: symgo replay <file>")
		return 2
	}
	b, err := os.ReadFile(args[0])
	if err != nil {
		fmt.Fprintln(os.Stderr, err)
		return 2
	}
	var rp struct {
		Property   string         `json:"property"`
		Harness    string         `json:"harness"`
		PackageDir string         `json:"package_dir"`
		Label      string         `json:"label"`
		Inputs     map[string]any `json:"inputs"`
		Repeat     int            `json:"repeat"`
	}
	if err := json.Unmarshal(b, &rp); err != nil {
		fmt.Fprintln(os.Stderr, err)
		return 2
	}
	files, err := harnessFiles(rp.Property)
	if err != nil {
		fmt.Fprintln(os.Stderr, err)
		return 2
	}
	ld, err := load(rp.Property, files)
	if err != nil {
		fmt.Fprintln(os.Stderr, err)
		return 2
	}
	r := &checkRun{prop: rp.Property, ld: ld}
	p := ld.pkgs[rp.PackageDir]
	if p == nil || p.Func(rp.Harness) == nil {
		fmt.Fprintln(os.Stderr, "harness not found:", rp.Harness)
		return 2
	}
	r.harnesses = []harness{{dir: rp.PackageDir, pkg: p, fn: p.Func(rp.Harness)}}
	res, err := r.runNative(map[string][]vtCase{rp.PackageDir: {{ID: "r1", Harness: rp.Harness, Inputs: rp.Inputs, Repeat: rp.Repeat}}})
	if err != nil {
		fmt.Fprintln(os.Stderr, err)
		return 2
	}
	out, _ := json.MarshalIndent(res["r1"], "", " ")
	fmt.Println(string(out))
	nr := res["r1"]
	if len(nr.Failed) > 0 || nr.Panic != "" || nr.Leaked > 0 {
		fmt.Printf("REPRODUCED label=%s failed=%v panic=%q leaked=%d\n", rp.Label, nr.Failed, nr.Panic, nr.Leaked)
		return 1
	}
	fmt.Println("not reproduced")
	return 0
}
