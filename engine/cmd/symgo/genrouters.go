package main

// Generator of the C12-C harnesses: for every generated router type found in the CURRENT tree
// (pkg/trait/*/*_router.pb.go) it emits, from go/types information, a fake client implementing the
// service's client interface and a harness that drives every method of the service's server interface
// through the router with a symbolic request name.

import (
	"fmt"
	"go/types"
	"os"
	"path/filepath"
	"sort"
	"strings"

	"golang.org/x/tools/go/packages"
)

type routerMethod struct {
	name     string
	stream   bool
	promoted bool // not declared on the router: only promoted from Unimplemented...Server
	req      types.Type
	resp     types.Type // unary: *Resp; stream: element type sent
	srvT     types.Type // stream: server stream interface
	cliT     types.Type // stream: client stream interface
}

type routerInfo struct {
	name    string
	ctor    string
	client  *types.Named
	methods []routerMethod
}

type importSet struct {
	byPath map[string]string
	self   string
}

func (is *importSet) qual(p *types.Package) string {
	if p.Path() == is.self {
		return ""
	}
	if a, ok := is.byPath[p.Path()]; ok {
		return a
	}
	a := fmt.Sprintf("q%d_%s", len(is.byPath), sanitize(p.Name()))
	is.byPath[p.Path()] = a
	return a
}

func (is *importSet) ts(t types.Type) string { return types.TypeString(t, is.qual) }

func genRouterHarnesses(tmp string) ([]harnessFile, error) {
	cfg := &packages.Config{
		Mode:       packages.NeedName | packages.NeedTypes | packages.NeedImports | packages.NeedDeps | packages.NeedSyntax | packages.NeedTypesInfo | packages.NeedFiles | packages.NeedCompiledGoFiles,
		Dir:        repoDir,
		BuildFlags: []string{"-tags=verif"},
		Env:        goEnv(),
	}
	pkgs, err := packages.Load(cfg, "./pkg/trait/...")
	if err != nil {
		return nil, err
	}
	var out []harnessFile
	sort.Slice(pkgs, func(i, j int) bool { return pkgs[i].PkgPath < pkgs[j].PkgPath })
	for _, p := range pkgs {
		if len(p.Errors) > 0 || p.Types == nil {
			continue
		}
		var routers []routerInfo
		scope := p.Types.Scope()
		for _, name := range scope.Names() {
			tn, ok := scope.Lookup(name).(*types.TypeName)
			if !ok || !strings.HasSuffix(name, "Router") {
				continue
			}
			st, ok := tn.Type().Underlying().(*types.Struct)
			if !ok {
				continue
			}
			var unimpl *types.Named
			hasRouter := false
			for i := 0; i < st.NumFields(); i++ {
				f := st.Field(i)
				if !f.Embedded() {
					continue
				}
				if n, ok := f.Type().(*types.Named); ok {
					if n.Obj().Name() == "Router" && strings.HasSuffix(n.Obj().Pkg().Path(), "/pkg/router") {
						hasRouter = true
					}
					if strings.HasPrefix(n.Obj().Name(), "Unimplemented") && strings.HasSuffix(n.Obj().Name(), "Server") {
						unimpl = n
					}
				}
			}
			if !hasRouter || unimpl == nil {
				continue
			}
			svc := strings.TrimSuffix(strings.TrimPrefix(unimpl.Obj().Name(), "Unimplemented"), "Server")
			apiScope := unimpl.Obj().Pkg().Scope()
			srvObj, cliObj := apiScope.Lookup(svc+"Server"), apiScope.Lookup(svc+"Client")
			if srvObj == nil || cliObj == nil {
				continue
			}
			srvIface, _ := srvObj.Type().Underlying().(*types.Interface)
			cliNamed, _ := cliObj.Type().(*types.Named)
			if srvIface == nil || cliNamed == nil || scope.Lookup("New"+name) == nil {
				continue
			}
			ri := routerInfo{name: name, ctor: "New" + name, client: cliNamed}
			ms := types.NewMethodSet(types.NewPointer(tn.Type()))
			for i := 0; i < srvIface.NumMethods(); i++ {
				m := srvIface.Method(i)
				if !m.Exported() {
					continue
				}
				sig := m.Type().(*types.Signature)
				rm := routerMethod{name: m.Name()}
				if sel := ms.Lookup(p.Types, m.Name()); sel == nil || len(sel.Index()) > 1 {
					rm.promoted = true
				}
				switch {
				case sig.Params().Len() == 2 && sig.Results().Len() == 2:
					rm.req, rm.resp = sig.Params().At(1).Type(), sig.Results().At(0).Type()
				case sig.Params().Len() == 2 && sig.Results().Len() == 1:
					rm.stream = true
					rm.req, rm.srvT = sig.Params().At(0).Type(), sig.Params().At(1).Type()
					// element type: the parameter of Send on the server stream interface
					if it, ok := rm.srvT.Underlying().(*types.Interface); ok {
						for j := 0; j < it.NumMethods(); j++ {
							if it.Method(j).Name() == "Send" {
								rm.resp = it.Method(j).Type().(*types.Signature).Params().At(0).Type()
							}
						}
					}
					// client stream type: result of the client interface's method
					ci := cliNamed.Underlying().(*types.Interface)
					for j := 0; j < ci.NumMethods(); j++ {
						if ci.Method(j).Name() == m.Name() {
							rm.cliT = ci.Method(j).Type().(*types.Signature).Results().At(0).Type()
						}
					}
					if rm.resp == nil || rm.cliT == nil {
						continue
					}
				default:
					continue // client-streaming / bidi: not produced by the router generator
				}
				ri.methods = append(ri.methods, rm)
			}
			routers = append(routers, ri)
		}
		if len(routers) == 0 {
			continue
		}
		src := renderRouterHarness(p.Types, routers)
		rel := strings.TrimPrefix(p.PkgPath, modPath+"/")
		real := filepath.Join(tmp, "c12gen_"+strings.ReplaceAll(rel, "/", "_")+".go")
		if err := os.WriteFile(real, []byte(src), 0o644); err != nil {
			return nil, err
		}
		out = append(out, harnessFile{real: real, virtual: filepath.Join(repoDir, rel, "zz_verif_C12_gen_routers.go"), pkgDir: rel})
	}
	return out, nil
}

func hasNameField(t types.Type) bool {
	p, ok := t.(*types.Pointer)
	if !ok {
		return false
	}
	st, ok := p.Elem().Underlying().(*types.Struct)
	if !ok {
		return false
	}
	for i := 0; i < st.NumFields(); i++ {
		if st.Field(i).Name() == "Name" {
			if b, ok := st.Field(i).Type().Underlying().(*types.Basic); ok && b.Kind() == types.String {
				return true
			}
		}
	}
	return false
}

func elemTS(is *importSet, t types.Type) string {
	if p, ok := t.(*types.Pointer); ok {
		return is.ts(p.Elem())
	}
	return is.ts(t)
}

func renderRouterHarness(pkg *types.Package, routers []routerInfo) string {
	is := &importSet{byPath: map[string]string{}, self: pkg.Path()}
	var body strings.Builder
	w := func(f string, a ...any) { fmt.Fprintf(&body, f, a...) }
	w(`
const vtGenN1, vtGenN2 = "0000000000000001", "0000000000000002"

type vtGenCall struct {
	client int
	method string
	req    any
	ctx    context.Context
}

// client-side stream fake: header, k messages, then EOF or an error, trailer
type vtGenCliBase struct {
	ctx     context.Context
	header  metadata.MD
	hdrErr  error
	trailer metadata.MD
	n       int   // messages before the end
	endErr  error // nil: io.EOF
	pos     int
}

func (c *vtGenCliBase) Header() (metadata.MD, error) { return c.header, c.hdrErr }
func (c *vtGenCliBase) Trailer() metadata.MD         { return c.trailer }
func (c *vtGenCliBase) CloseSend() error             { return nil }
func (c *vtGenCliBase) Context() context.Context     { return c.ctx }
func (c *vtGenCliBase) SendMsg(m any) error          { return nil }
func (c *vtGenCliBase) RecvMsg(m any) error          { return nil }

// server-side stream fake: records what the router sends to its caller
type vtGenSrvBase struct {
	ctx        context.Context
	sentHeader metadata.MD
	headers    int
	trailer    metadata.MD
	failAt     int // Send fails at this position (-1: never)
	sendErr    error
	sent       int
}

func (s *vtGenSrvBase) SetHeader(md metadata.MD) error  { return nil }
func (s *vtGenSrvBase) SendHeader(md metadata.MD) error { s.sentHeader = md; s.headers++; return nil }
func (s *vtGenSrvBase) SetTrailer(md metadata.MD)       { s.trailer = md }
func (s *vtGenSrvBase) Context() context.Context        { return s.ctx }
func (s *vtGenSrvBase) SendMsg(m any) error             { return nil }
func (s *vtGenSrvBase) RecvMsg(m any) error             { return nil }
`)
	for _, r := range routers {
		fake := "vtGenFake_" + r.name
		w("\n// ---- %s ----\n\ntype %s struct {\n\tid  int\n\tlog *[]vtGenCall\n\terr error\n\topenErr error\n", r.name, fake)
		for _, m := range r.methods {
			if m.stream {
				w("\tcli_%s *vtGenCli_%s_%s\n", m.name, r.name, m.name)
			} else {
				w("\tresp_%s %s\n", m.name, is.ts(m.resp))
			}
		}
		w("}\n")
		// the client interface may have methods the server interface loop skipped (other streaming shapes): implement all
		ci := r.client.Underlying().(*types.Interface)
		handled := map[string]bool{}
		for _, m := range r.methods {
			handled[m.name] = true
			if m.stream {
				w("\ntype vtGenCli_%s_%s struct {\n\t*vtGenCliBase\n\tmsgs []%s\n}\n", r.name, m.name, is.ts(m.resp))
				w("func (c *vtGenCli_%s_%s) Recv() (%s, error) {\n\tif c.pos < c.n {\n\t\tm := c.msgs[c.pos]\n\t\tc.pos++\n\t\treturn m, nil\n\t}\n\tif c.endErr != nil {\n\t\treturn nil, c.endErr\n\t}\n\treturn nil, io.EOF\n}\n", r.name, m.name, is.ts(m.resp))
				w("\ntype vtGenSrv_%s_%s struct {\n\t*vtGenSrvBase\n\tgot []%s\n}\n", r.name, m.name, is.ts(m.resp))
				w("func (s *vtGenSrv_%s_%s) Send(m %s) error {\n\tif s.sent == s.failAt {\n\t\treturn s.sendErr\n\t}\n\ts.sent++\n\ts.got = append(s.got, m)\n\treturn nil\n}\n", r.name, m.name, is.ts(m.resp))
				w("func (f *%s) %s(ctx context.Context, in %s, opts ...grpc.CallOption) (%s, error) {\n\t*f.log = append(*f.log, vtGenCall{f.id, %q, in, ctx})\n\tif f.openErr != nil {\n\t\treturn nil, f.openErr\n\t}\n\tf.cli_%s.ctx = ctx\n\treturn f.cli_%s, nil\n}\n",
					fake, m.name, is.ts(m.req), is.ts(m.cliT), m.name, m.name, m.name)
			} else {
				w("func (f *%s) %s(ctx context.Context, in %s, opts ...grpc.CallOption) (%s, error) {\n\t*f.log = append(*f.log, vtGenCall{f.id, %q, in, ctx})\n\treturn f.resp_%s, f.err\n}\n",
					fake, m.name, is.ts(m.req), is.ts(m.resp), m.name, m.name)
			}
		}
		for i := 0; i < ci.NumMethods(); i++ {
			m := ci.Method(i)
			if handled[m.Name()] {
				continue
			}
			sig := m.Type().(*types.Signature)
			var ps, rs []string
			for j := 0; j < sig.Params().Len(); j++ {
				t := is.ts(sig.Params().At(j).Type())
				if sig.Variadic() && j == sig.Params().Len()-1 {
					t = "..." + strings.TrimPrefix(t, "[]")
				}
				ps = append(ps, fmt.Sprintf("a%d %s", j, t))
			}
			for j := 0; j < sig.Results().Len(); j++ {
				rs = append(rs, is.ts(sig.Results().At(j).Type()))
			}
			w("func (f *%s) %s(%s) (%s) { panic(\"not driven by the harness\") }\n", fake, m.Name(), strings.Join(ps, ", "), strings.Join(rs, ", "))
		}
		// constructor of a fake with fresh responses and a symbolic error
		w("\nfunc vtGenNew_%s(id int, log *[]vtGenCall, tag string) *%s {\n\tf := &%s{id: id, log: log}\n", r.name, fake, fake)
		w("\tif vt.Choose(tag+\".err\", 2) == 1 {\n\t\tf.err = vt.Err(tag + \".errv\")\n\t}\n")
		for _, m := range r.methods {
			if m.stream {
				w("\tf.cli_%s = &vtGenCli_%s_%s{vtGenCliBase: &vtGenCliBase{}}\n", m.name, r.name, m.name)
			} else {
				w("\tf.resp_%s = &%s{}\n", m.name, elemTS(is, m.resp))
			}
		}
		w("\treturn f\n}\n")
		// the harness
		w("\n// Every method of the service, a symbolic request name, two registered fake clients.\nfunc VT_C12_Fwd_%s() {\n", r.name)
		w("\tvar log []vtGenCall\n\tc1, c2 := vtGenNew_%s(1, &log, \"c1\"), vtGenNew_%s(2, &log, \"c2\")\n\tr := %s()\n\tr.Add(vtGenN1, c1)\n\tr.Add(vtGenN2, c2)\n", r.name, r.name, r.ctor)
		w("\tname := vt.StrOrd(\"name\")\n\tvar want *%s\n\tif name == vtGenN1 {\n\t\twant = c1\n\t} else if name == vtGenN2 {\n\t\twant = c2\n\t}\n\tctx := context.Background()\n\t_ = ctx\n", fake)
		nm := 0
		for _, m := range r.methods {
			if m.promoted || hasNameField(m.req) {
				nm++
			}
		}
		if nm == 0 {
			w("\t_ = want\n\tvt.Reach(\"service-without-routable-methods\")\n}\n")
			continue
		}
		w("\tswitch vt.Choose(\"method\", %d) {\n", nm)
		k := 0
		for _, m := range r.methods {
			if m.promoted {
				w("\tcase %d:\n\t\tvt.Assert(false, \"rpc-%s-is-not-routed\")\n", k, m.name)
				k++
				continue
			}
			if !hasNameField(m.req) {
				continue
			}
			w("\tcase %d: // %s\n\t\treq := &%s{Name: name}\n", k, m.name, elemTS(is, m.req))
			k++
			if !m.stream {
				w("\t\tresp, err := r.%s(ctx, req)\n", m.name)
				w("\t\tif want == nil {\n\t\t\tvt.Assert(status.Code(err) == codes.NotFound, \"unknown-name-is-NotFound\")\n\t\t\tvt.Assert(resp == nil, \"unknown-name-has-no-response\")\n\t\t\tvt.Assert(len(log) == 0, \"unknown-name-touches-no-client\")\n\t\t} else {\n")
				w("\t\t\tvt.Assert(len(log) == 1, \"forwarded-exactly-once\")\n\t\t\tif len(log) == 1 {\n\t\t\t\tvt.Assert(vt.And(log[0].client == want.id, log[0].method == %q, log[0].req == any(req)), \"forwarded-to-the-named-client-same-method-same-request\")\n\t\t\t}\n", m.name)
				w("\t\t\tvt.Assert(vt.And(resp == want.resp_%s, err == want.err), \"response-and-error-pass-through-unaltered\")\n\t\t}\n", m.name)
				w("\t\tvt.Reach(\"unary-%s\")\n", m.name)
				continue
			}
			// server streaming
			w("\t\tsrv := &vtGenSrv_%s_%s{vtGenSrvBase: &vtGenSrvBase{ctx: ctx, failAt: -1}}\n", r.name, m.name)
			w("\t\tvar cli *vtGenCli_%s_%s\n\t\tif want != nil {\n\t\t\tcli = want.cli_%s\n", r.name, m.name, m.name)
			w("\t\t\tif vt.Choose(\"openFails\", 2) == 1 {\n\t\t\t\twant.openErr = vt.Err(\"openErr\")\n\t\t\t}\n")
			w("\t\t\tcli.header = metadata.MD{\"h\": {\"1\"}}\n\t\t\tif vt.Choose(\"hasTrailer\", 2) == 1 {\n\t\t\t\tcli.trailer = metadata.MD{\"t\": {\"2\"}}\n\t\t\t}\n")
			w("\t\t\tcli.n = vt.Choose(\"messages\", 3)\n\t\t\tfor i := 0; i < cli.n; i++ {\n\t\t\t\tcli.msgs = append(cli.msgs, &%s{})\n\t\t\t}\n", elemTS(is, m.resp))
			w("\t\t\tif vt.Choose(\"endsWithError\", 2) == 1 {\n\t\t\t\tcli.endErr = vt.Err(\"endErr\")\n\t\t\t}\n")
			w("\t\t\tif cli.n > 0 && vt.Choose(\"callerFails\", 2) == 1 {\n\t\t\t\tsrv.failAt = vt.Choose(\"callerFailsAt\", cli.n)\n\t\t\t\tsrv.sendErr = vt.Err(\"sendErr\")\n\t\t\t}\n\t\t}\n")
			w("\t\terr := r.%s(req, srv)\n", m.name)
			w("\t\tswitch {\n\t\tcase want == nil:\n\t\t\tvt.Assert(status.Code(err) == codes.NotFound, \"unknown-name-is-NotFound\")\n\t\t\tvt.Assert(vt.And(len(log) == 0, srv.sent == 0, srv.headers == 0), \"unknown-name-touches-no-client\")\n")
			w("\t\tcase want.openErr != nil:\n\t\t\tvt.Assert(err == want.openErr, \"open-error-passes-through\")\n\t\t\tvt.Assert(srv.sent == 0, \"nothing-sent-after-open-error\")\n")
			w("\t\tdefault:\n\t\t\tvt.Assert(len(log) == 1, \"forwarded-exactly-once\")\n\t\t\tif len(log) == 1 {\n\t\t\t\tvt.Assert(vt.And(log[0].client == want.id, log[0].method == %q, log[0].req == any(req)), \"forwarded-to-the-named-client-same-method-same-request\")\n\t\t\t}\n", m.name)
			w("\t\t\tvt.Assert(vt.And(srv.headers == 1, len(srv.sentHeader[\"h\"]) == 1), \"stream-header-passes-through\")\n")
			w("\t\t\tif srv.failAt >= 0 {\n\t\t\t\tvt.Assert(err == srv.sendErr, \"caller-error-is-returned\")\n\t\t\t\tvt.Assert(len(srv.got) == srv.failAt, \"messages-before-the-caller-error-were-delivered\")\n\t\t\t\tif len(log) == 1 {\n\t\t\t\t\tvt.Assert(log[0].ctx.Err() != nil, \"forwarded-request-cancelled-on-caller-error\")\n\t\t\t\t}\n\t\t\t} else {\n")
			w("\t\t\t\tvt.Assert(len(srv.got) == cli.n, \"every-message-forwarded\")\n\t\t\t\tfor i := range srv.got {\n\t\t\t\t\tif i < len(cli.msgs) {\n\t\t\t\t\t\tvt.Assert(srv.got[i] == cli.msgs[i], \"messages-pass-through-in-order-unaltered\")\n\t\t\t\t\t}\n\t\t\t\t}\n")
			w("\t\t\t\tif cli.endErr != nil {\n\t\t\t\t\tvt.Assert(err == cli.endErr, \"stream-error-passes-through\")\n\t\t\t\t} else {\n\t\t\t\t\tvt.Assert(err == nil, \"end-of-stream-is-success\")\n\t\t\t\t}\n")
			w("\t\t\t\tvt.Assert((cli.trailer == nil) == (srv.trailer == nil), \"trailer-passes-through\")\n\t\t\t}\n\t\t}\n")
			w("\t\tvt.Reach(\"stream-%s\")\n", m.name)
		}
		w("\t}\n}\n")
	}
	// header with imports
	var hdr strings.Builder
	hdr.WriteString("//go:build verif\n\n// Code generated by symgo from the current tree's type information. DO NOT EDIT.\n\npackage " + pkg.Name() + "\n\nimport (\n\t\"context\"\n\t\"io\"\n\n\t\"google.golang.org/grpc\"\n\t\"google.golang.org/grpc/codes\"\n\t\"google.golang.org/grpc/metadata\"\n\t\"google.golang.org/grpc/status\"\n\n\t\"" + modPath + "/internal/vt\"\n")
	var paths []string
	for p := range is.byPath {
		paths = append(paths, p)
	}
	sort.Strings(paths)
	for _, p := range paths {
		switch p {
		case "context", "io", "google.golang.org/grpc", "google.golang.org/grpc/codes", "google.golang.org/grpc/metadata", "google.golang.org/grpc/status":
			// imported under their own names below via alias too
		}
		hdr.WriteString(fmt.Sprintf("\t%s %q\n", is.byPath[p], p))
	}
	hdr.WriteString(")\n\nvar _ = io.EOF\nvar _ = codes.OK\nvar _ = status.Code\nvar _ grpc.CallOption\nvar _ metadata.MD\n")
	return hdr.String() + body.String()
}
