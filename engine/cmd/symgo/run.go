package main

import (
	"bufio"
	"encoding/json"
	"fmt"
	"os"
	"path/filepath"
	"sort"
	"strings"
	"time"

	"golang.org/x/tools/go/ssa"

	"verif/engine/sym"
)

type harness struct {
	dir string
	pkg *ssa.Package
	fn  *ssa.Function
}

type checkRun struct {
	prop                         string
	tier                         string
	ld                           *loaded
	harnesses                    []harness
	cfg                          sym.Config
	verbose                      bool
	t0                           time.Time
	seed                         int
	noNative                     bool
	race                         bool
	nativeRace, nativeRaceAlways bool
	raceSeen                     map[string]string // package dir -> first DATA RACE report of the native run
	crashed                      map[string]string // package dir -> crash text when the native test process died (unrecoverable panic)
}

type knownFinding struct {
	Property string `json:"property"`
	ID       string `json:"id"`
	What     string `json:"what"`
	Fixed    string `json:"fixed,omitempty"`
}

func loadKnown() map[string]knownFinding {
	out := map[string]knownFinding{}
	f, err := os.Open(filepath.Join(verifDir, "known_findings.jsonl"))
	if err != nil {
		return out
	}
	defer f.Close()
	sc := bufio.NewScanner(f)
	sc.Buffer(make([]byte, 1<<20), 1<<20)
	for sc.Scan() {
		line := strings.TrimSpace(sc.Text())
		if line == "" || strings.HasPrefix(line, "#") || strings.HasPrefix(line, "fixed:") {
			continue
		}
		var k knownFinding
		if json.Unmarshal([]byte(line), &k) == nil && k.ID != "" && k.Fixed == "" {
			out[k.ID] = k
		}
	}
	return out
}

// vtCase mirrors vt.Case
type vtCase struct {
	ID        string         `json:"id"`
	Harness   string         `json:"harness"`
	Inputs    map[string]any `json:"inputs"`
	Repeat    int            `json:"repeat,omitempty"`
	Candidate bool           `json:"candidate,omitempty"`
}
type vtResult struct {
	ID        string            `json:"id"`
	Harness   string            `json:"harness"`
	Failed    []string          `json:"failed"`
	Panic     string            `json:"panic"`
	Stack     string            `json:"stack"`
	Reached   []string          `json:"reached"`
	Obs       map[string]string `json:"obs"`
	Rejected  bool              `json:"rejected"`
	Leaked    int               `json:"leaked"`
	Known     []string          `json:"known"`
	Runs      int               `json:"runs,omitempty"`
	HookCalls int               `json:"hook_calls,omitempty"`
	Skipped   bool              `json:"skipped,omitempty"`
}

type candidate struct {
	h      harness
	v      sym.Violation
	caseID string
	path   *sym.PathResult
}

func (r *checkRun) tierVals() map[string]int {
	m := map[string]int{}
	if r.tier == "thorough" {
		m["__thorough"] = 1
	}
	return m
}

func (r *checkRun) execute() int {
	eng := sym.NewEngine(r.ld.prog, modPath, r.cfg)
	known := loadKnown()
	var results []hresT
	inconclusive := []string{}
	for _, h := range r.harnesses {
		hr := eng.Explore(h.fn, r.tierVals())
		results = append(results, hresT{h, hr})
		nviol, ninc := 0, 0
		for _, p := range hr.Paths {
			nviol += len(p.Violations)
			if p.Status == sym.StInconclusive {
				ninc++
			}
		}
		fmt.Printf("harness %-46s paths=%-5d violations=%-3d inconclusive=%-3d queries=%v solver=%.1fs wall=%.1fs\n",
			h.fn.Name(), len(hr.Paths), nviol, ninc, hr.Queries, hr.SolverTime.Seconds(), hr.Wall.Seconds())
		if hr.Truncated {
			inconclusive = append(inconclusive, h.fn.Name()+": path budget exceeded")
		}
		for _, e := range hr.SolverErrors {
			inconclusive = append(inconclusive, h.fn.Name()+": solver error: "+e)
		}
		for _, p := range hr.Paths {
			if p.Status == sym.StInconclusive {
				inconclusive = append(inconclusive, h.fn.Name()+": "+p.Reason)
			}
			if p.UnknownBr > 0 {
				inconclusive = append(inconclusive, fmt.Sprintf("%s: %d branch feasibility queries returned unknown", h.fn.Name(), p.UnknownBr))
			}
		}
	}

	// ---- collect native cases: validation samples + violation candidates ----
	casesByDir := map[string][]vtCase{}
	var cands []*candidate
	type valSample struct {
		h  harness
		p  *sym.PathResult
		id string
	}
	var samples []valSample
	nextID := 0
	boundInputs := func(m map[string]any) map[string]any {
		out := map[string]any{}
		for k, v := range m {
			out[k] = v
		}
		return out
	}
	for _, hr := range results {
		// validation: sample terminal paths (all when <= 200)
		var done []*sym.PathResult
		for _, p := range hr.hr.Paths {
			if p.Status == sym.StDone && p.Model != nil {
				done = append(done, p)
			}
		}
		step := 1
		if len(done) > 200 {
			step = len(done)/200 + 1
		}
		for i := (r.seed % step); i < len(done); i += step {
			p := done[i]
			nextID++
			id := fmt.Sprintf("s%d", nextID)
			casesByDir[hr.h.dir] = append(casesByDir[hr.h.dir], vtCase{ID: id, Harness: hr.h.fn.Name(), Inputs: r.withBounds(boundInputs(p.Model))})
			samples = append(samples, valSample{hr.h, p, id})
		}
		perLabel := map[string]int{}
		for _, p := range hr.hr.Paths {
			for _, v := range p.Violations {
				// at most 4 counterexamples per (harness, label, known-finding) are replayed natively
				lk := v.Label + "|" + v.KF
				perLabel[lk]++
				if perLabel[lk] > 4 {
					continue
				}
				nextID++
				id := fmt.Sprintf("v%d", nextID)
				c := &candidate{h: hr.h, v: v, caseID: id, path: p}
				cands = append(cands, c)
				if v.Model != nil {
					vc := vtCase{ID: id, Harness: hr.h.fn.Name(), Inputs: r.withBounds(boundInputs(v.Model)), Candidate: true}
					if p.SchedPoints > 0 {
						vc.Repeat = 2000 // schedule-dependent: stress (with yield-point perturbation) until it shows
					}
					casesByDir[hr.h.dir] = append(casesByDir[hr.h.dir], vc)
				}
			}
		}
	}

	// many package directories (generated router harnesses): validate a seed-rotated sample of them natively,
	// plus every directory that has counterexample candidates
	if len(casesByDir) > 8 {
		candDirs := map[string]bool{}
		for _, c := range cands {
			candDirs[c.h.dir] = true
		}
		var dirs []string
		for d := range casesByDir {
			dirs = append(dirs, d)
		}
		sort.Strings(dirs)
		keep := map[string]bool{}
		for i := 0; i < 6; i++ {
			keep[dirs[(r.seed*7+i*11)%len(dirs)]] = true
		}
		var kept []valSample
		for _, d := range dirs {
			if !keep[d] && !candDirs[d] {
				delete(casesByDir, d)
			}
		}
		for _, s := range samples {
			if _, ok := casesByDir[s.h.dir]; ok {
				kept = append(kept, s)
			}
		}
		samples = kept
	}
	native := map[string]vtResult{}
	nativeErr := ""
	if !r.noNative {
		var err error
		r.nativeRace = r.nativeRaceAlways
		for _, c := range cands {
			if c.v.Label == "data-race" {
				r.nativeRace = true // confirmation needs the Go race detector
			}
		}
		native, err = r.runNative(casesByDir)
		if r.verbose {
			for d, c := range r.crashed {
				fmt.Printf("native test process crashed in %s:\n%s\n", d, c)
			}
		}
		if err != nil {
			nativeErr = err.Error()
		}
	}

	// ---- translator validation ----
	violatedLabels := map[string]bool{}
	for _, hr := range results {
		for _, p := range hr.hr.Paths {
			for _, v := range p.Violations {
				violatedLabels[hr.h.fn.Name()+"/"+v.Label] = true
			}
		}
	}
	validated, mismatches := 0, []string{}
	if !r.noNative && nativeErr == "" {
		for _, s := range samples {
			nr, ok := native[s.id]
			if !ok {
				mismatches = append(mismatches, s.h.fn.Name()+": native result missing for "+s.id)
				continue
			}
			if nr.Skipped {
				// not run natively: earlier samples of this harness hung (reported through the deadlock candidates)
				continue
			}
			if nr.Rejected {
				mismatches = append(mismatches, fmt.Sprintf("%s: native run rejected inputs (Assume false) that the engine considers feasible; inputs=%v", s.h.fn.Name(), s.p.Model))
				continue
			}
			bad := false
			if s.p.SchedPoints > 0 {
				// the outcome depends on the schedule, which the native run does not follow: a native failure is only
				// a disagreement if the engine found that assertion violated on no path at all
				for _, f := range nr.Failed {
					if !violatedLabels[s.h.fn.Name()+"/"+f] {
						mismatches = append(mismatches, fmt.Sprintf("%s: native run (free schedule) failed assertion %s which the engine found violated on no explored schedule; inputs=%v", s.h.fn.Name(), f, s.p.Model))
						bad = true
					}
				}
				if nr.Panic != "" && !violatedLabels[s.h.fn.Name()+"/no-panic"] && !violatedLabels[s.h.fn.Name()+"/deadlock"] {
					mismatches = append(mismatches, fmt.Sprintf("%s: native run (free schedule) panicked: %s; inputs=%v", s.h.fn.Name(), nr.Panic, s.p.Model))
					bad = true
				}
				if !bad {
					validated++
				}
				continue
			}
			// a path that finished without violation must not fail natively
			if len(s.p.Violations) == 0 {
				if nr.Panic != "" {
					mismatches = append(mismatches, fmt.Sprintf("%s: native panic %q on a path the engine completed; inputs=%v", s.h.fn.Name(), nr.Panic, s.p.Model))
					bad = true
				}
				if len(nr.Failed) > 0 {
					mismatches = append(mismatches, fmt.Sprintf("%s: native assertion failures %v on a path the engine passed; inputs=%v", s.h.fn.Name(), nr.Failed, s.p.Model))
					bad = true
				}
			}
			for k, ev := range s.p.ObsVals {
				es, _ := ev.(string)
				if es == "?" {
					continue
				}
				if nv, ok := nr.Obs[k]; ok && nv != es {
					mismatches = append(mismatches, fmt.Sprintf("%s: observation %s engine=%s native=%s inputs=%v", s.h.fn.Name(), k, es, nv, s.p.Model))
					bad = true
				} else if !ok && len(s.p.Violations) == 0 {
					mismatches = append(mismatches, fmt.Sprintf("%s: observation %s missing natively; inputs=%v", s.h.fn.Name(), k, s.p.Model))
					bad = true
				}
			}
			if !bad {
				validated++
			}
		}
	}

	// ---- decide violations ----
	exit := 0
	kfPrinted := map[string]bool{}
	var violationLines []string
	var unconfirmed []string
	seenViol := map[string]bool{}
	// schedule-dependent counterexamples are confirmed by stress; one reproducing candidate per (harness, label, kf) suffices
	confirm := func(c *candidate) (bool, string) {
		nr, have := native[c.caseID]
		confirmed := false
		detail := ""
		if crash := r.crashed[c.h.dir]; crash != "" && !have && (c.v.Label == "no-panic" || c.v.Label == "deadlock") {
			// the native process died; it reproduces this candidate if it died with the same panic message
			msg := strings.TrimPrefix(c.v.Detail, "panic: ")
			msg = strings.TrimPrefix(msg, "runtime error: ")
			if msg != "" && strings.Contains(crash, strings.TrimSpace(msg)) {
				return true, "native test process crashed: " + firstLine(crash)
			}
		}
		if have && !nr.Rejected {
			switch {
			case c.v.Label == "no-panic":
				confirmed = nr.Panic != ""
				detail = nr.Panic
			case c.v.Label == "data-race":
				// the native race report must name one of the functions of the engine's report
				txt := r.raceSeen[c.h.dir]
				for _, w := range strings.Fields(c.v.Detail) {
					if i := strings.LastIndex(w, "."); i > 0 && i+1 < len(w) && strings.Contains(w, "/") {
						fn := strings.Trim(w[i+1:], "()$0123456789")
						if len(fn) > 3 && strings.Contains(txt, fn+"(") {
							confirmed = true
						}
					}
				}
				detail = "native -race: " + firstLine(r.raceSeen[c.h.dir])
			case c.v.Label == "goroutine-leak" || c.v.Label == "deadlock":
				confirmed = nr.Leaked > 0 || nr.Panic != ""
				detail = fmt.Sprintf("leaked=%d %s", nr.Leaked, nr.Panic)
			case strings.HasPrefix(c.v.Label, "frozen-store:"):
				for _, f := range nr.Failed {
					if strings.HasPrefix(f, "frozen:") {
						confirmed = true
					}
				}
			default:
				for _, f := range nr.Failed {
					if f == c.v.Label {
						confirmed = true
					}
				}
				if nr.Panic != "" {
					detail = "native panic: " + nr.Panic
				}
			}
		}
		return confirmed, detail
	}
	gkey := func(c *candidate) string { return c.h.fn.Name() + "/" + c.v.Label + "/" + c.v.KF }
	groupConfirmed := map[string]bool{}
	for _, c := range cands {
		if ok, _ := confirm(c); ok && c.path.SchedPoints > 0 {
			groupConfirmed[gkey(c)] = true
		}
	}
	for _, c := range cands {
		nr := native[c.caseID]
		confirmed, detail := confirm(c)
		if !confirmed && c.path.SchedPoints > 0 && groupConfirmed[gkey(c)] {
			continue // another schedule of the same counterexample reproduced; this one did not show under stress
		}
		if c.v.KF != "" {
			kf, listed := known[c.v.KF]
			if listed && confirmed {
				if !kfPrinted[c.v.KF] {
					kfPrinted[c.v.KF] = true
					fmt.Printf("KNOWN-FINDING: property=%s %s: %s (harness %s, label %s, inputs %s)\n", r.prop, kf.ID, kf.What, c.h.fn.Name(), c.v.Label, compact(c.v.Model))
				}
				continue
			}
			if listed && !confirmed {
				unconfirmed = append(unconfirmed, fmt.Sprintf("%s/%s (known finding %s) did not reproduce natively: %s", c.h.fn.Name(), c.v.Label, c.v.KF, detail))
				continue
			}
			// not listed: falls through as an ordinary violation
		}
		key := c.h.fn.Name() + "/" + c.v.Label
		if confirmed {
			if seenViol[key] {
				continue
			}
			seenViol[key] = true
			rp := filepath.Join(outDir, "replays", fmt.Sprintf("%s-%s-%s.json", r.prop, c.h.fn.Name(), sanitize(c.v.Label)))
			writeJSON(rp, map[string]any{
				"property": r.prop, "harness": c.h.fn.Name(), "package_dir": c.h.dir, "label": c.v.Label, "detail": c.v.Detail,
				"inputs": r.withBounds(c.v.Model), "schedule": c.v.Trace, "native": nr,
			})
			violationLines = append(violationLines, fmt.Sprintf("VIOLATION property=%s replay=%s", r.prop, rp))
			fmt.Printf("  violated: %s label=%s %s inputs=%s %s\n", c.h.fn.Name(), c.v.Label, c.v.Detail, compact(c.v.Model), detail)
			exit = 1
		} else if !r.noNative {
			unconfirmed = append(unconfirmed, fmt.Sprintf("%s/%s did not reproduce natively (%s %s) inputs=%s trace=%v", c.h.fn.Name(), c.v.Label, c.v.Detail, detail, compact(c.v.Model), lastN(c.v.Trace, 3)))
		} else {
			fmt.Printf("  candidate (native check skipped): %s label=%s %s inputs=%s\n", c.h.fn.Name(), c.v.Label, c.v.Detail, compact(c.v.Model))
			if r.verbose {
				fmt.Printf("    schedule: %v\n", c.v.Trace)
			}
		}
	}
	// listed known findings that were expected in this property but no longer appear are simply not printed.

	// ---- vacuity: every Reach label of every harness must be reached on some completed path ----
	reachAll := map[string]bool{}
	for _, hr := range results {
		for _, p := range hr.hr.Paths {
			for _, l := range p.Reached {
				reachAll[hr.h.fn.Name()+":"+l] = true
			}
		}
		got := 0
		for _, p := range hr.hr.Paths {
			if p.Status == sym.StDone {
				got++
			}
		}
		if got == 0 {
			inconclusive = append(inconclusive, hr.h.fn.Name()+": no path completed (vacuous harness)")
		}
		if !hasReach(hr.hr) {
			inconclusive = append(inconclusive, hr.h.fn.Name()+": no vt.Reach witness was reached (vacuous harness)")
		}
	}

	broken := []string{}
	if nativeErr != "" {
		broken = append(broken, "native validation failed to run: "+nativeErr)
	}
	for _, m := range mismatches {
		broken = append(broken, "engine/native disagreement: "+m)
	}
	for _, u := range unconfirmed {
		broken = append(broken, "unconfirmed counterexample: "+u)
	}
	for _, l := range violationLines {
		fmt.Println(l)
	}
	r.writeEvidence(results, validated, len(samples), inconclusive, broken, kfPrinted, len(violationLines), reachAll)
	if exit == 1 {
		return 1
	}
	if len(inconclusive) > 0 || len(broken) > 0 || r.noNative {
		for _, s := range dedupe(inconclusive) {
			fmt.Println("INCONCLUSIVE:", s)
		}
		for _, s := range dedupe(broken) {
			fmt.Println("BROKEN:", s)
		}
		return 2
	}
	fmt.Printf("OK property=%s tier=%s harnesses=%d validated_paths=%d wall=%.1fs\n", r.prop, r.tier, len(r.harnesses), validated, time.Since(r.t0).Seconds())
	return 0
}

func hasReach(hr *sym.HarnessResult) bool {
	for _, p := range hr.Paths {
		if len(p.Reached) > 0 {
			return true
		}
	}
	return false
}

func dedupe(ss []string) []string {
	seen := map[string]bool{}
	var out []string
	for _, s := range ss {
		if !seen[s] {
			seen[s] = true
			out = append(out, s)
		}
	}
	if len(out) > 40 {
		out = append(out[:40], fmt.Sprintf("... and %d more", len(out)-40))
	}
	return out
}

func sanitize(s string) string {
	var sb strings.Builder
	for _, c := range s {
		if (c >= 'a' && c <= 'z') || (c >= 'A' && c <= 'Z') || (c >= '0' && c <= '9') || c == '-' || c == '_' {
			sb.WriteRune(c)
		} else {
			sb.WriteByte('_')
		}
	}
	return sb.String()
}

func compact(m map[string]any) string {
	keys := make([]string, 0, len(m))
	for k := range m {
		keys = append(keys, k)
	}
	sort.Strings(keys)
	var parts []string
	for _, k := range keys {
		b, _ := json.Marshal(m[k])
		parts = append(parts, k+"="+string(b))
	}
	s := strings.Join(parts, " ")
	if len(s) > 600 {
		s = s[:600] + "..."
	}
	return s
}

func (r *checkRun) withBounds(m map[string]any) map[string]any {
	if m == nil {
		m = map[string]any{}
	}
	if r.tier == "thorough" {
		m["bound:__thorough"] = "1"
	}
	return m
}

type hresT struct {
	h  harness
	hr *sym.HarnessResult
}

// runNative builds the overlay and runs the cases through `go test`.
func (r *checkRun) runNative(casesByDir map[string][]vtCase) (map[string]vtResult, error) {
	out := map[string]vtResult{}
	if len(casesByDir) == 0 {
		return out, nil
	}
	tmp, err := os.MkdirTemp("", "symgo-native-")
	if err != nil {
		return nil, err
	}
	defer os.RemoveAll(tmp)
	replace := map[string]string{filepath.Join(repoDir, "internal/vt/vt.go"): filepath.Join(verifDir, "vt", "vt.go")}
	for _, f := range r.ld.files {
		replace[f.virtual] = f.real
	}
	// registry + test driver per package dir
	byDir := map[string][]string{}
	for _, h := range r.harnesses {
		byDir[h.dir] = append(byDir[h.dir], h.fn.Name())
	}
	for dir := range byDir {
		p := r.ld.pkgs[dir]
		// register every VT_ function of the package (cases name the one they need)
		var names []string
		for name, m := range p.Members {
			if fn, ok := m.(*ssa.Function); ok && strings.HasPrefix(name, "VT_") && fn.Signature.Params().Len() == 0 {
				names = append(names, name)
			}
		}
		sort.Strings(names)
		var sb strings.Builder
		fmt.Fprintf(&sb, "//go:build verif\n\npackage %s\n\nimport \"%s/internal/vt\"\n\nfunc init() {\n", p.Pkg.Name(), modPath)
		for _, n := range names {
			fmt.Fprintf(&sb, "\tvt.Register(%q, %s)\n", n, n)
		}
		sb.WriteString("}\n")
		tag := strings.ReplaceAll(dir, "/", "_")
		regFile := filepath.Join(tmp, "registry_"+tag+".go")
		os.WriteFile(regFile, []byte(sb.String()), 0o644)
		replace[filepath.Join(repoDir, dir, "zz_verif_registry.go")] = regFile
		testSrc := fmt.Sprintf("//go:build verif\n\npackage %s\n\nimport (\n\t\"testing\"\n\n\t\"%s/internal/vt\"\n)\n\nfunc TestVTReplay(t *testing.T) { vt.RunReplay(t.Fatal) }\n", p.Pkg.Name(), modPath)
		testFile := filepath.Join(tmp, "replay_"+tag+"_test.go")
		os.WriteFile(testFile, []byte(testSrc), 0o644)
		replace[filepath.Join(repoDir, dir, "zz_verif_replay_test.go")] = testFile
	}
	ovFile := filepath.Join(tmp, "overlay.json")
	writeJSON(ovFile, map[string]any{"Replace": replace})
	for dir, cases := range casesByDir {
		in := filepath.Join(tmp, "cases_"+strings.ReplaceAll(dir, "/", "_")+".json")
		outF := filepath.Join(tmp, "out_"+strings.ReplaceAll(dir, "/", "_")+".json")
		writeJSON(in, cases)
		env := append(goEnv(), "VT_REPLAY="+in, "VT_OUT="+outF)
		args := []string{"test", "-tags", "verif", "-vet=off", "-count=1", "-overlay", ovFile, "-run", "TestVTReplay$", "-timeout", "30m"}
		if r.nativeRace {
			args = append(args, "-race")
		}
		args = append(args, "./"+dir)
		txt, err := runCmd(repoDir, env, 40*time.Minute, "go", args...)
		if r.nativeRace {
			if i := strings.Index(txt, "WARNING: DATA RACE"); i >= 0 {
				if r.raceSeen == nil {
					r.raceSeen = map[string]string{}
				}
				r.raceSeen[dir] = trimTo(txt[i:], 2500)
			}
		}
		b, rerr := os.ReadFile(outF)
		if rerr != nil {
			if i := strings.Index(txt, "panic: "); i >= 0 || strings.Contains(txt, "fatal error: ") {
				// the test process itself died: a panic in a goroutine other than the harness's cannot be recovered
				if i < 0 {
					i = strings.Index(txt, "fatal error: ")
				}
				if r.crashed == nil {
					r.crashed = map[string]string{}
				}
				r.crashed[dir] = trimTo(txt[i:], 3000)
				continue
			}
			return nil, fmt.Errorf("native run in %s produced no results: %v\n%s", dir, err, trimTo(txt, 3000))
		}
		var rs []vtResult
		if e := json.Unmarshal(b, &rs); e != nil {
			return nil, e
		}
		for _, x := range rs {
			out[x.ID] = x
		}
	}
	return out, nil
}

func trimTo(s string, n int) string {
	if len(s) > n {
		return s[:n]
	}
	return s
}

func lastN(ss []string, n int) []string {
	if len(ss) > n {
		return ss[len(ss)-n:]
	}
	return ss
}

func firstLine(s string) string {
	ls := strings.Split(s, "\n")
	if len(ls) > 12 {
		ls = ls[:12]
	}
	return strings.Join(ls, " | ")
}
