// symgo: solver-based checking of Go code by symbolic execution of go/ssa.
package main

import (
	"crypto/sha256"
	"encoding/json"
	"flag"
	"fmt"
	"os"
	"os/exec"
	"path/filepath"
	"regexp"
	"sort"
	"strings"
	"time"

	"golang.org/x/tools/go/packages"
	"golang.org/x/tools/go/ssa"
	"golang.org/x/tools/go/ssa/ssautil"

	"verif/engine/sym"
)

const (
	verifDir = "/verif"
	modPath  = "github.com/smart-core-os/sc-golang"
)

// repoDir is the tree under check. The registered commands always check /repo; SYMGO_REPO points the tooling that
// evaluates seeded changes at a scratch clone instead (outDir then keeps its evidence and replays out of /verif).
var (
	repoDir = "/repo"
	outDir  = verifDir
)

func init() {
	if v := os.Getenv("SYMGO_REPO"); v != "" {
		repoDir = v
	}
	if v := os.Getenv("SYMGO_OUT"); v != "" {
		outDir = v
	}
}

func main() {
	if len(os.Args) < 2 {
		fmt.Fprintln(os.Stderr, "usage: symgo check -p <id> [-tier quick|thorough] | symgo replay <file>")
		os.Exit(2)
	}
	switch os.Args[1] {
	case "check":
		os.Exit(cmdCheck(os.Args[2:]))
	case "replay":
		os.Exit(cmdReplay(os.Args[2:]))
	default:
		fmt.Fprintln(os.Stderr, "unknown command", os.Args[1])
		os.Exit(2)
	}
}

type harnessFile struct {
	real    string // file under /verif/harness
	virtual string // path under /repo
	pkgDir  string // package dir relative to /repo
}

// harnessFiles lists the harness sources of a property: /verif/harness/<id>/<pkg dir with / as __>/<name>.go
func harnessFiles(prop string) ([]harnessFile, error) {
	root := filepath.Join(verifDir, "harness", prop)
	var out []harnessFile
	dirs, err := os.ReadDir(root)
	if err != nil {
		return nil, err
	}
	if prop != "_common" {
		// shared helper packages (virtual packages under internal/) are part of every property's overlay
		if common, err := harnessFiles("_common"); err == nil {
			out = append(out, common...)
		}
	}
	for _, d := range dirs {
		if !d.IsDir() {
			continue
		}
		pkgDir := strings.ReplaceAll(d.Name(), "__", "/")
		files, _ := os.ReadDir(filepath.Join(root, d.Name()))
		for _, f := range files {
			if !strings.HasSuffix(f.Name(), ".go") {
				continue
			}
			out = append(out, harnessFile{
				real:    filepath.Join(root, d.Name(), f.Name()),
				virtual: filepath.Join(repoDir, pkgDir, "zz_verif_"+prop+"_"+f.Name()),
				pkgDir:  pkgDir,
			})
		}
	}
	return out, nil
}

func goEnv() []string {
	return append(os.Environ(), "GOFLAGS=-mod=mod", "GOPROXY=off", "GOSUMDB=off", "GOTOOLCHAIN=local", "GOWORK=off")
}

type loaded struct {
	prog  *ssa.Program
	pkgs  map[string]*ssa.Package // by dir
	files []harnessFile
}

func load(prop string, files []harnessFile) (*loaded, error) {
	overlay := map[string][]byte{}
	dirs := map[string]bool{}
	for _, f := range files {
		b, err := os.ReadFile(f.real)
		if err != nil {
			return nil, err
		}
		overlay[f.virtual] = b
		dirs[f.pkgDir] = true
	}
	vtb, err := os.ReadFile(filepath.Join(verifDir, "vt", "vt.go"))
	if err != nil {
		return nil, err
	}
	overlay[filepath.Join(repoDir, "internal/vt/vt.go")] = vtb
	var patterns []string
	for d := range dirs {
		patterns = append(patterns, "./"+d)
	}
	sort.Strings(patterns)
	cfg := &packages.Config{
		Mode:       packages.LoadAllSyntax,
		Dir:        repoDir,
		BuildFlags: []string{"-tags=verif"},
		Env:        goEnv(),
		Overlay:    overlay,
	}
	pkgs, err := packages.Load(cfg, patterns...)
	if err != nil {
		return nil, err
	}
	nerr := 0
	packages.Visit(pkgs, nil, func(p *packages.Package) {
		for _, e := range p.Errors {
			fmt.Fprintln(os.Stderr, "load error:", e)
			nerr++
		}
	})
	if nerr > 0 {
		return nil, fmt.Errorf("%d package load errors", nerr)
	}
	prog, spkgs := ssautil.AllPackages(pkgs, ssa.InstantiateGenerics)
	ld := &loaded{prog: prog, pkgs: map[string]*ssa.Package{}, files: files}
	for i, p := range pkgs {
		rel := strings.TrimPrefix(p.PkgPath, modPath+"/")
		ld.pkgs[rel] = spkgs[i]
		spkgs[i].Build()
	}
	return ld, nil
}

type tierCfg struct {
	name     string
	thorough bool
}

func cmdCheck(args []string) int {
	fs := flag.NewFlagSet("check", flag.ExitOnError)
	prop := fs.String("p", "", "property id")
	tier := fs.String("tier", "quick", "quick|thorough")
	only := fs.String("only", "", "regexp selecting harness functions")
	verbose := fs.Bool("v", false, "verbose")
	workers := fs.Int("workers", 14, "parallel workers")
	noNative := fs.Bool("no-native", false, "skip native validation (debugging only; the check then exits 2)")
	maxPaths := fs.Int("max-paths", 0, "")
	preempt := fs.Int("preempt", -1, "preemption bound (-1 unbounded)")
	solverName := fs.String("solver", "z3", "z3 | z3-new | cvc5")
	raceFlag := fs.Bool("race", false, "enable the happens-before race monitor (always on for C11)")
	fs.Parse(args)
	if os.Getenv("VERIF_TIER") != "" && *tier == "quick" {
		// VERIF_TIER only refines, the command line decides the tier
	}
	if *prop == "" {
		fmt.Fprintln(os.Stderr, "missing -p")
		return 2
	}
	t0 := time.Now()
	files, err := harnessFiles(*prop)
	if err != nil || len(files) == 0 {
		fmt.Fprintln(os.Stderr, "no harness for", *prop, err)
		return 2
	}
	if *prop == "C12" && os.Getenv("SYMGO_NO_GEN") == "" {
		// C12-C: harnesses for every generated router are produced from the current tree's types on every run
		gtmp, gerr := os.MkdirTemp("", "symgo-c12gen-")
		if gerr != nil {
			fmt.Fprintln(os.Stderr, gerr)
			return 2
		}
		defer os.RemoveAll(gtmp)
		gen, gerr := genRouterHarnesses(gtmp)
		if gerr != nil {
			fmt.Fprintln(os.Stderr, "router harness generation failed:", gerr)
			return 2
		}
		files = append(files, gen...)
		fmt.Printf("generated %d router harness files from the current tree\n", len(gen))
	}
	if (*prop == "C07" || *prop == "C11") && os.Getenv("SYMGO_NO_GEN") == "" {
		// per-model isolation harnesses are produced from the current tree's types on every run
		gtmp, gerr := os.MkdirTemp("", "symgo-modelgen-")
		if gerr != nil {
			fmt.Fprintln(os.Stderr, gerr)
			return 2
		}
		if os.Getenv("SYMGO_KEEP_GEN") == "" {
			defer os.RemoveAll(gtmp)
		} else {
			fmt.Println("generated files kept in", gtmp)
		}
		gen, gerr := genModelHarnesses(gtmp, *prop)
		if gerr != nil {
			fmt.Fprintln(os.Stderr, "model harness generation failed:", gerr)
			return 2
		}
		files = append(files, gen...)
		fmt.Printf("generated %d model harness files from the current tree\n", len(gen))
	}
	ld, err := load(*prop, files)
	if err != nil {
		fmt.Fprintln(os.Stderr, "load failed:", err)
		return 2
	}
	var re *regexp.Regexp
	if *only != "" {
		re = regexp.MustCompile(*only)
	}
	run := &checkRun{prop: *prop, tier: *tier, ld: ld, verbose: *verbose, t0: t0, noNative: *noNative}
	seed := 0
	fmt.Sscan(os.Getenv("VERIF_SEED"), &seed)
	run.seed = seed
	prefix := "VT_" + *prop + "_"
	var dirs []string
	for d := range ld.pkgs {
		dirs = append(dirs, d)
	}
	sort.Strings(dirs)
	for _, d := range dirs {
		p := ld.pkgs[d]
		var names []string
		for name, m := range p.Members {
			if fn, ok := m.(*ssa.Function); ok && strings.HasPrefix(name, prefix) && fn.Signature.Params().Len() == 0 {
				names = append(names, name)
			}
		}
		sort.Strings(names)
		for _, name := range names {
			if re != nil && !re.MatchString(name) {
				continue
			}
			if strings.HasSuffix(name, "_T") && *tier != "thorough" {
				continue // thorough-only harness
			}
			run.harnesses = append(run.harnesses, harness{dir: d, pkg: p, fn: p.Func(name)})
		}
	}
	if len(run.harnesses) == 0 {
		fmt.Fprintln(os.Stderr, "no harness functions found with prefix", prefix)
		return 2
	}
	cfg := sym.Config{Workers: *workers, MaxPaths: *maxPaths, MaxPreempt: *preempt, SolverName: *solverName}
	// the exploration switches goroutines only at synchronisation operations, which is complete for data-race-free
	// code only: every property whose harnesses run goroutines is therefore explored under the race monitor, and a
	// race is reported (it invalidates the exploration and is a defect in its own right)
	concurrent := map[string]bool{"C02": true, "C03": true, "C04": true, "C08": true, "C09": true, "C10": true, "C11": true, "C12": true, "C17": true, "C19": true}
	cfg.RaceDetect = concurrent[*prop] || *raceFlag
	run.race = cfg.RaceDetect
	run.nativeRaceAlways = *prop == "C11" || *raceFlag
	if *tier == "thorough" {
		cfg.TimeoutMs = 120000
		if cfg.MaxPaths == 0 {
			cfg.MaxPaths = 1500000 // per harness (quick: 200000); exceeding it is inconclusive, never a pass
		}
	}
	run.cfg = cfg
	return run.execute()
}

func fileSHA(path string) string {
	b, err := os.ReadFile(path)
	if err != nil {
		return ""
	}
	return fmt.Sprintf("%x", sha256.Sum256(b))[:16]
}

func writeJSON(path string, v any) error {
	b, err := json.MarshalIndent(v, "", " ")
	if err != nil {
		return err
	}
	os.MkdirAll(filepath.Dir(path), 0o755)
	return os.WriteFile(path, b, 0o644)
}

func runCmd(dir string, env []string, timeout time.Duration, name string, args ...string) (string, error) {
	cmd := exec.Command(name, args...)
	cmd.Dir = dir
	cmd.Env = env
	done := make(chan struct{})
	var out []byte
	var err error
	go func() {
		out, err = cmd.CombinedOutput()
		close(done)
	}()
	select {
	case <-done:
	case <-time.After(timeout):
		if cmd.Process != nil {
			cmd.Process.Kill()
		}
		<-done
		err = fmt.Errorf("timeout after %v", timeout)
	}
	return string(out), err
}
