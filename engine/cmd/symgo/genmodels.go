package main

// Generator of the per-model C07 harnesses: for every trait package of the CURRENT tree that has a `Model` with a
// `NewModel` constructor, it finds from go/types the (write, read, pull) method triples over one message type T
//
//	Update<X>/Set<X>(msg *T, opts ...resource.WriteOption) (*T, error)
//	Get<X>/<X>(opts ...resource.ReadOption) (*T, error) | *T
//	Pull<X>(ctx, opts ...resource.ReadOption) <-chan C      with C (or *C) holding a field of type *T
//
// and emits one isolation harness per triple: write a populated message, scribble over it, read, subscribe, read with a
// mask, write again; every message that crossed the API is frozen and deep-compared afterwards.

import (
	"fmt"
	"go/types"
	"os"
	"path/filepath"
	"reflect"
	"sort"
	"strings"

	"golang.org/x/tools/go/packages"
)

type modelTriple struct {
	write, read, pull string
	readErr           bool // read returns (*T, error)
	t                 *types.Pointer
	chanElem          types.Type
	chanPtr           bool
	field             string // field of the change carrying *T
}

// genModelSkip lists generated harnesses that are not registered, with the reason (kept in DESIGN.md too).
var genModelSkip = map[string]string{}

func isProtoMsgPtr(t types.Type) (*types.Pointer, bool) {
	p, ok := t.(*types.Pointer)
	if !ok {
		return nil, false
	}
	n, ok := p.Elem().(*types.Named)
	if !ok {
		return nil, false
	}
	if _, ok := n.Underlying().(*types.Struct); !ok {
		return nil, false
	}
	ms := types.NewMethodSet(p)
	for i := 0; i < ms.Len(); i++ {
		if ms.At(i).Obj().Name() == "ProtoReflect" {
			return p, true
		}
	}
	return nil, false
}

func isVariadicOf(sig *types.Signature, idx int, name string) bool {
	if !sig.Variadic() || idx != sig.Params().Len()-1 {
		return false
	}
	sl, ok := sig.Params().At(idx).Type().(*types.Slice)
	if !ok {
		return false
	}
	n, ok := sl.Elem().(*types.Named)
	return ok && n.Obj().Name() == name && strings.HasSuffix(n.Obj().Pkg().Path(), "/pkg/resource")
}

func isErrorType(t types.Type) bool { return t.String() == "error" }

func genModelHarnesses(tmp, prop string) ([]harnessFile, error) {
	cfg := &packages.Config{
		Mode:       packages.NeedName | packages.NeedTypes | packages.NeedImports | packages.NeedDeps | packages.NeedSyntax | packages.NeedTypesInfo | packages.NeedFiles | packages.NeedCompiledGoFiles,
		Dir:        repoDir,
		BuildFlags: []string{"-tags=verif"},
		Env:        goEnv(),
	}
	pkgs, err := packages.Load(cfg, "./pkg/trait/...")
	if err != nil {
		return nil, err
	}
	var out []harnessFile
	sort.Slice(pkgs, func(i, j int) bool { return pkgs[i].PkgPath < pkgs[j].PkgPath })
	for _, p := range pkgs {
		if len(p.Errors) > 0 || p.Types == nil {
			continue
		}
		scope := p.Types.Scope()
		tn, ok := scope.Lookup("Model").(*types.TypeName)
		if !ok {
			continue
		}
		ctor, ok := scope.Lookup("NewModel").(*types.Func)
		if !ok {
			continue
		}
		csig := ctor.Type().(*types.Signature)
		if csig.Results().Len() != 1 || !(csig.Params().Len() == 0 || (csig.Variadic() && csig.Params().Len() == 1)) {
			continue // constructors that need arguments are not driven
		}
		ms := types.NewMethodSet(types.NewPointer(tn.Type()))
		type cand struct {
			name string
			sig  *types.Signature
		}
		var meths []cand
		for i := 0; i < ms.Len(); i++ {
			f, ok := ms.At(i).Obj().(*types.Func)
			if !ok || !f.Exported() || len(ms.At(i).Index()) > 1 {
				continue
			}
			meths = append(meths, cand{f.Name(), f.Type().(*types.Signature)})
		}
		sort.Slice(meths, func(i, j int) bool { return meths[i].name < meths[j].name })
		var triples []modelTriple
		for _, w := range meths {
			if !(strings.HasPrefix(w.name, "Update") || strings.HasPrefix(w.name, "Set")) {
				continue
			}
			if w.sig.Params().Len() != 2 || !isVariadicOf(w.sig, 1, "WriteOption") || w.sig.Results().Len() != 2 || !isErrorType(w.sig.Results().At(1).Type()) {
				continue
			}
			tp, ok := isProtoMsgPtr(w.sig.Params().At(0).Type())
			if !ok || !types.Identical(tp, w.sig.Results().At(0).Type()) {
				continue
			}
			tr := modelTriple{write: w.name, t: tp}
			for _, r := range meths {
				if r.sig.Params().Len() != 1 || !isVariadicOf(r.sig, 0, "ReadOption") {
					continue
				}
				switch {
				case r.sig.Results().Len() == 2 && types.Identical(r.sig.Results().At(0).Type(), tp) && isErrorType(r.sig.Results().At(1).Type()):
					tr.read, tr.readErr = r.name, true
				case r.sig.Results().Len() == 1 && types.Identical(r.sig.Results().At(0).Type(), tp):
					tr.read = r.name
				}
				if tr.read != "" {
					break
				}
			}
			if tr.read == "" {
				continue
			}
			for _, pl := range meths {
				if !strings.HasPrefix(pl.name, "Pull") || pl.sig.Params().Len() != 2 || !isVariadicOf(pl.sig, 1, "ReadOption") || pl.sig.Results().Len() != 1 {
					continue
				}
				ch, ok := pl.sig.Results().At(0).Type().(*types.Chan)
				if !ok {
					continue
				}
				el := ch.Elem()
				isPtr := false
				if pp, ok := el.(*types.Pointer); ok {
					el, isPtr = pp.Elem(), true
				}
				st, ok := el.Underlying().(*types.Struct)
				if !ok {
					continue
				}
				for i := 0; i < st.NumFields(); i++ {
					if st.Field(i).Exported() && types.Identical(st.Field(i).Type(), tp) {
						tr.pull, tr.chanElem, tr.chanPtr, tr.field = pl.name, ch.Elem(), isPtr, st.Field(i).Name()
						break
					}
				}
				if tr.pull != "" {
					break
				}
			}
			triples = append(triples, tr)
		}
		if len(triples) == 0 {
			continue
		}
		src := renderModelHarness(p.Types, prop, triples)
		rel := strings.TrimPrefix(p.PkgPath, modPath+"/")
		real := filepath.Join(tmp, "modelgen_"+strings.ReplaceAll(rel, "/", "_")+".go")
		if err := os.WriteFile(real, []byte(src), 0o644); err != nil {
			return nil, err
		}
		out = append(out, harnessFile{real: real, virtual: filepath.Join(repoDir, rel, "zz_verif_"+prop+"_gen_models.go"), pkgDir: rel})
	}
	return out, nil
}

// protoFieldName extracts name=... from a protobuf struct tag.
func protoFieldName(tag string) string {
	pb := reflect.StructTag(tag).Get("protobuf")
	for _, part := range strings.Split(pb, ",") {
		if strings.HasPrefix(part, "name=") {
			return strings.TrimPrefix(part, "name=")
		}
	}
	return ""
}

func isOneofTag(tag string) bool { return reflect.StructTag(tag).Get("protobuf_oneof") != "" }

// msgLiteral renders a populated literal of the message type pointed to by tp; v selects the variant (1 or 2).
// scalars get small non-zero values, message fields are populated to the given depth, lists get one element,
// oneofs, maps and optional scalars stay unset.
func msgLiteral(is *importSet, tp *types.Pointer, v int, depth int) string {
	n := tp.Elem().(*types.Named)
	st := n.Underlying().(*types.Struct)
	pkgPath := ""
	if n.Obj().Pkg() != nil {
		pkgPath = n.Obj().Pkg().Path()
	}
	switch pkgPath + "." + n.Obj().Name() {
	case "google.golang.org/protobuf/types/known/timestamppb.Timestamp":
		return fmt.Sprintf("&%s{Seconds: %d}", is.ts(n), 1000+v)
	case "google.golang.org/protobuf/types/known/durationpb.Duration":
		return fmt.Sprintf("&%s{Seconds: %d}", is.ts(n), 10+v)
	case "google.golang.org/protobuf/types/known/fieldmaskpb.FieldMask":
		return "nil"
	}
	var parts []string
	for i := 0; i < st.NumFields(); i++ {
		f := st.Field(i)
		tag := st.Tag(i)
		if !f.Exported() || protoFieldName(tag) == "" || isOneofTag(tag) {
			continue
		}
		if lit := valueLiteral(is, f.Type(), v, depth); lit != "" {
			parts = append(parts, fmt.Sprintf("%s: %s", f.Name(), lit))
		}
	}
	return fmt.Sprintf("&%s{%s}", is.ts(n), strings.Join(parts, ", "))
}

func valueLiteral(is *importSet, t types.Type, v int, depth int) string {
	switch u := t.(type) {
	case *types.Pointer:
		if mp, ok := isProtoMsgPtr(u); ok {
			if depth <= 0 {
				return ""
			}
			lit := msgLiteral(is, mp, v, depth-1)
			if lit == "nil" {
				return ""
			}
			return lit
		}
		return "" // optional scalar
	case *types.Slice:
		if b, ok := u.Elem().Underlying().(*types.Basic); ok && b.Kind() == types.Uint8 {
			return "" // bytes
		}
		el := valueLiteral(is, u.Elem(), v, depth)
		if el == "" {
			return ""
		}
		return fmt.Sprintf("%s{%s}", is.ts(u), el)
	case *types.Map:
		return ""
	}
	b, ok := t.Underlying().(*types.Basic)
	if !ok {
		return ""
	}
	switch {
	case b.Kind() == types.String:
		return fmt.Sprintf("%q", fmt.Sprintf("s%d", v))
	case b.Kind() == types.Bool:
		return "true"
	case b.Info()&types.IsInteger != 0:
		if _, named := t.(*types.Named); named {
			return fmt.Sprintf("%s(%d)", is.ts(t), 1) // enum: the first non-zero value in both variants
		}
		return fmt.Sprintf("%d", v)
	case b.Info()&types.IsFloat != 0:
		return fmt.Sprintf("%d", v)
	}
	return ""
}

// scribbles returns statements that modify the message held in variable x (top-level scalars and the scalars of
// the first populated nested message), and the proto name of the first scalar field (for a read mask).
func scribbles(is *importSet, tp *types.Pointer, x string, depth int) (stmts []string, firstScalar string) {
	st := tp.Elem().(*types.Named).Underlying().(*types.Struct)
	for i := 0; i < st.NumFields(); i++ {
		f := st.Field(i)
		tag := st.Tag(i)
		pn := protoFieldName(tag)
		if !f.Exported() || pn == "" || isOneofTag(tag) {
			continue
		}
		switch u := f.Type().(type) {
		case *types.Pointer:
			if mp, ok := isProtoMsgPtr(u); ok && depth > 0 {
				if lit := msgLiteral(is, mp, 1, depth-1); lit != "nil" {
					sub, _ := scribbles(is, mp, x+"."+f.Name(), 0)
					if len(sub) > 0 {
						stmts = append(stmts, fmt.Sprintf("if %s.%s != nil {", x, f.Name()))
						stmts = append(stmts, sub...)
						stmts = append(stmts, "}")
					}
				}
			}
			continue
		case *types.Slice, *types.Map:
			continue
		}
		b, ok := f.Type().Underlying().(*types.Basic)
		if !ok {
			continue
		}
		switch {
		case b.Kind() == types.String:
			stmts = append(stmts, fmt.Sprintf("%s.%s = \"scribbled\"", x, f.Name()))
		case b.Kind() == types.Bool:
			stmts = append(stmts, fmt.Sprintf("%s.%s = !%s.%s", x, f.Name(), x, f.Name()))
		case b.Info()&types.IsInteger != 0, b.Info()&types.IsFloat != 0:
			stmts = append(stmts, fmt.Sprintf("%s.%s += 40", x, f.Name()))
		default:
			continue
		}
		if firstScalar == "" {
			firstScalar = pn
		}
	}
	return
}

func renderModelHarness(pkg *types.Package, prop string, triples []modelTriple) string {
	is := &importSet{byPath: map[string]string{}, self: pkg.Path()}
	var body strings.Builder
	w := func(f string, a ...any) { fmt.Fprintf(&body, f, a...) }
	w(`
type vtGenKept struct {
	m     proto.Message
	copy  proto.Message
	label string
}

var vtGenKeptMsgs []vtGenKept

func vtGenKeep(m proto.Message, label string) {
	vtGenKeptMsgs = append(vtGenKeptMsgs, vtGenKept{m, proto.Clone(m), label})
	vt.Freeze(m, label)
}

func vtGenRecheck(after string) {
	for _, k := range vtGenKeptMsgs {
		vt.Assert(proto.Equal(k.m, k.copy), k.label+"-unchanged-after-"+after)
	}
	vt.CheckFrozen()
}
`)
	if prop == "C11" {
		return renderModelRaceHarness(pkg, is, triples)
	}
	for _, tr := range triples {
		name := fmt.Sprintf("VT_%s_Model_%s", prop, tr.write)
		tname := is.ts(tr.t.Elem())
		read := func(opts string) string {
			if tr.readErr {
				return fmt.Sprintf("func() *%s { r, _ := m.%s(%s); return r }()", tname, tr.read, opts)
			}
			return fmt.Sprintf("m.%s(%s)", tr.read, opts)
		}
		scr, firstScalar := scribbles(is, tr.t, "w1", 1)
		w("\n// %s / %s / %s over %s: messages crossing the model's API are isolated from the store and from each other.\nfunc %s() {\n", tr.write, tr.read, tr.pull, tname, name)
		w("\tvtGenKeptMsgs = nil\n\tm := NewModel()\n")
		w("\tw1 := %s\n", msgLiteral(is, tr.t, 1, 1))
		w("\tr1, err := m.%s(w1)\n\tif err != nil {\n\t\tvt.Reach(\"model-rejects-the-generated-message\")\n\t\treturn\n\t}\n", tr.write)
		w("\tr1c := proto.Clone(r1)\n")
		for _, s := range scr {
			w("\t%s\n", s)
		}
		w("\tg1 := %s\n", read(""))
		w("\tvt.Assert(proto.Equal(g1, r1c), \"store-unaffected-by-caller-modifying-the-written-message\")\n")
		w("\tif r1 != nil {\n\t\tvtGenKeep(r1, \"write-result\")\n\t}\n\tif g1 != nil {\n\t\tvtGenKeep(g1, \"read-result\")\n\t}\n")
		if tr.pull != "" {
			w("\tctx, cancel := context.WithCancel(context.Background())\n\tdefer cancel()\n\tch := m.%s(ctx)\n\tvt.Settle()\n", tr.pull)
			w("\tselect {\n\tcase seed := <-ch:\n\t\tif seed.%s != nil {\n\t\tvtGenKeep(seed.%s, \"pull-seed\")\n\t}\n\tdefault:\n\t}\n", tr.field, tr.field)
			w("\tvtGenRecheck(\"subscribing\")\n")
		}
		if firstScalar != "" {
			w("\tgm := %s\n\tif gm != nil {\n\t\tvtGenKeep(gm, \"masked-read-result\")\n\t}\n", read(fmt.Sprintf("resource.WithReadPaths(&%s{}, %q)", tname, firstScalar)))
			w("\tvtGenRecheck(\"masked-read\")\n")
			w("\tvt.Assert(proto.Equal(%s, r1c), \"masked-read-leaves-the-store-unchanged\")\n", read(""))
		}
		// the empty read mask selects nothing: the projection drops every populated field
		w("\tge := %s\n\tif ge != nil {\n\t\tvtGenKeep(ge, \"empty-mask-read-result\")\n\t}\n", read("resource.WithReadMask(&fieldmaskpb.FieldMask{})"))
		w("\tvtGenRecheck(\"empty-mask-read\")\n")
		w("\tvt.Assert(proto.Equal(%s, r1c), \"empty-mask-read-leaves-the-store-unchanged\")\n", read(""))
		w("\tw2 := %s\n", msgLiteral(is, tr.t, 2, 1))
		w("\tr2, err := m.%s(w2)\n\tif err == nil {\n\t\tif r2 != nil {\n\t\tvtGenKeep(r2, \"second-write-result\")\n\t}\n", tr.write)
		if tr.pull != "" {
			w("\t\tvt.Settle()\n\t\tselect {\n\t\tcase ev := <-ch:\n\t\t\tif ev.%s != nil {\n\t\tvtGenKeep(ev.%s, \"pull-update\")\n\t}\n\t\tdefault:\n\t\t}\n", tr.field, tr.field)
		}
		w("\t}\n\tvtGenRecheck(\"second-write\")\n")
		w("\tg3 := %s\n\tif g3 != nil {\n\t\tvtGenKeep(g3, \"final-read-result\")\n\t}\n\tvtGenRecheck(\"final-read\")\n\tvt.Reach(\"done\")\n}\n", read(""))
	}
	var hdr strings.Builder
	hdr.WriteString("//go:build verif\n\n// Code generated by symgo from the current tree's type information. DO NOT EDIT.\n\npackage " + pkg.Name() + "\n\nimport (\n\t\"context\"\n\n\t\"google.golang.org/protobuf/proto\"\n\t\"google.golang.org/protobuf/types/known/fieldmaskpb\"\n\n\t\"" + modPath + "/internal/vt\"\n\t\"" + modPath + "/pkg/resource\"\n")
	var paths []string
	for p := range is.byPath {
		paths = append(paths, p)
	}
	sort.Strings(paths)
	for _, p := range paths {
		hdr.WriteString(fmt.Sprintf("\t%s %q\n", is.byPath[p], p))
	}
	hdr.WriteString(")\n\nvar _ = context.Background\nvar _ resource.ReadOption\n")
	return hdr.String() + body.String()
}

// renderModelRaceHarness: per triple, a writer, a reader (plain and masked, touching every field by cloning) and a
// subscriber run concurrently on one model; the engine's race monitor watches every heap cell they touch.
func renderModelRaceHarness(pkg *types.Package, is *importSet, triples []modelTriple) string {
	var body strings.Builder
	w := func(f string, a ...any) { fmt.Fprintf(&body, f, a...) }
	for _, tr := range triples {
		tname := is.ts(tr.t.Elem())
		read := func(opts string) string {
			if tr.readErr {
				return fmt.Sprintf("func() *%s { r, _ := m.%s(%s); return r }()", tname, tr.read, opts)
			}
			return fmt.Sprintf("m.%s(%s)", tr.read, opts)
		}
		w("\n// %s / %s / %s with a subscriber attached, a writer and a reader (plain and masked) run concurrently.\nfunc VT_C11_Model_%s() {\n", tr.write, tr.read, tr.pull, tr.write)
		w("\tm := NewModel()\n\tif _, err := m.%s(%s); err != nil {\n\t\tvt.Reach(\"model-rejects-the-generated-message\")\n\t\treturn\n\t}\n", tr.write, msgLiteral(is, tr.t, 1, 1))
		if tr.pull != "" {
			// subscribed (and seeded) before the concurrent part starts: fewer interleavings, same accesses
			w("\tctx, cancel := context.WithCancel(context.Background())\n\tdefer cancel()\n\tch := m.%s(ctx)\n", tr.pull)
			w("\tif e, ok := <-ch; ok && e.%s != nil {\n\t\t_ = proto.Clone(e.%s)\n\t}\n", tr.field, tr.field)
		}
		w("\tvar wg sync.WaitGroup\n\twg.Add(2)\n")
		w("\tgo func() {\n\t\tdefer wg.Done()\n\t\tm.%s(%s)\n\t}()\n", tr.write, msgLiteral(is, tr.t, 2, 1))
		w("\tgo func() {\n\t\tdefer wg.Done()\n\t\tif r := %s; r != nil {\n\t\t\t_ = proto.Clone(r)\n\t\t}\n", read(""))
		w("\t\tif r := %s; r != nil {\n\t\t\t_ = proto.Clone(r)\n\t\t}\n\t}()\n", read("resource.WithReadMask(&fieldmaskpb.FieldMask{})"))
		w("\twg.Wait()\n")
		if tr.pull != "" {
			w("\tvt.Settle()\n\tselect {\n\tcase e, ok := <-ch:\n\t\tif ok && e.%s != nil {\n\t\t\t_ = proto.Clone(e.%s)\n\t\t}\n\tdefault:\n\t}\n", tr.field, tr.field)
		}
		w("\tvt.Reach(\"done\")\n}\n")
	}
	var hdr strings.Builder
	hdr.WriteString("//go:build verif\n\n// Code generated by symgo from the current tree's type information. DO NOT EDIT.\n\npackage " + pkg.Name() + "\n\nimport (\n\t\"context\"\n\t\"sync\"\n\n\t\"google.golang.org/protobuf/proto\"\n\t\"google.golang.org/protobuf/types/known/fieldmaskpb\"\n\n\t\"" + modPath + "/internal/vt\"\n\t\"" + modPath + "/pkg/resource\"\n")
	var paths []string
	for p := range is.byPath {
		paths = append(paths, p)
	}
	sort.Strings(paths)
	for _, p := range paths {
		hdr.WriteString(fmt.Sprintf("\t%s %q\n", is.byPath[p], p))
	}
	hdr.WriteString(")\n\nvar _ = context.Background\nvar _ resource.ReadOption\n")
	return hdr.String() + body.String()
}
