// Package smt is a small hash-consed term layer with constant folding and an
// SMT-LIB2 printer.  Terms are built per symbolic path (one Builder per path).
package smt

import (
	"fmt"
	"math"
	"sort"
	"strconv"
	"strings"
)

type SortKind int

const (
	KBool SortKind = iota
	KBV
	KStr
	KFP
)

type Sort struct {
	K SortKind
	W int // BV width; FP: total width (32/64)
}

var (
	Bool = Sort{K: KBool}
	Str  = Sort{K: KStr}
	F32  = Sort{K: KFP, W: 32}
	F64  = Sort{K: KFP, W: 64}
)

func BV(w int) Sort { return Sort{K: KBV, W: w} }

func (s Sort) String() string {
	switch s.K {
	case KBool:
		return "Bool"
	case KBV:
		return fmt.Sprintf("(_ BitVec %d)", s.W)
	case KStr:
		return "String"
	case KFP:
		if s.W == 32 {
			return "(_ FloatingPoint 8 24)"
		}
		return "(_ FloatingPoint 11 53)"
	}
	return "?"
}

type Op int

const (
	OVar Op = iota
	OConst
	ONot
	OAnd
	OOr
	OIte
	OEq
	OAdd
	OSub
	OMul
	OUDiv
	OSDiv
	OURem
	OSRem
	OBAnd
	OBOr
	OBXor
	OShl
	OLshr
	OAshr
	ONeg
	OBNot
	OUlt
	OUle
	OSlt
	OSle
	OZext // P = extra bits
	OSext
	OExtract // P=hi, Q=lo
	OStrLt
	OStrLe
	OStrCat
	OStrLen // result BV64
	OFAdd
	OFSub
	OFMul
	OFDiv
	OFNeg
	OFAbs
	OFLt
	OFLe
	OFEq
	OFIsNaN
	OFIsInf
	OFIsNeg
	OFRound
	OFFromSBV // P = target width
	OFFromUBV
	OFToSBV // P = target width (RTZ)
	OFToFP  // P = target width
	OFMin
	OFMax
	OFFromBits // reinterpret BV as FP
	OFToBits   // fp.to_ieee_bv
)

var opNames = map[Op]string{
	ONot: "not", OAnd: "and", OOr: "or", OIte: "ite", OEq: "=",
	OAdd: "bvadd", OSub: "bvsub", OMul: "bvmul", OUDiv: "bvudiv", OSDiv: "bvsdiv", OURem: "bvurem", OSRem: "bvsrem",
	OBAnd: "bvand", OBOr: "bvor", OBXor: "bvxor", OShl: "bvshl", OLshr: "bvlshr", OAshr: "bvashr", ONeg: "bvneg", OBNot: "bvnot",
	OUlt: "bvult", OUle: "bvule", OSlt: "bvslt", OSle: "bvsle",
	OStrLt: "str.<", OStrLe: "str.<=", OStrCat: "str.++",
	OFNeg: "fp.neg", OFAbs: "fp.abs", OFLt: "fp.lt", OFLe: "fp.leq", OFEq: "fp.eq", OFIsNaN: "fp.isNaN", OFIsInf: "fp.isInfinite", OFIsNeg: "fp.isNegative",
	OFMin: "fp.min", OFMax: "fp.max", OFToBits: "fp.to_ieee_bv",
}

type Term struct {
	Op   Op
	Sort Sort
	Args []*Term
	P, Q int
	// constants
	U    uint64 // BV value / FP bits / bool (0/1)
	S    string // string const or var name
	ID   int
	hash string
}

func (t *Term) IsConst() bool { return t.Op == OConst }
func (t *Term) IsTrue() bool  { return t.Op == OConst && t.Sort.K == KBool && t.U == 1 }
func (t *Term) IsFalse() bool { return t.Op == OConst && t.Sort.K == KBool && t.U == 0 }

// Builder hash-conses terms.
type Builder struct {
	tab   map[string]*Term
	Vars  []*Term
	varBy map[string]*Term
	next  int
}

func NewBuilder() *Builder {
	return &Builder{tab: map[string]*Term{}, varBy: map[string]*Term{}}
}

func (b *Builder) mk(t *Term) *Term {
	var sb strings.Builder
	fmt.Fprintf(&sb, "%d|%d.%d|%d.%d|", t.Op, t.Sort.K, t.Sort.W, t.P, t.Q)
	if t.Op == OConst || t.Op == OVar {
		fmt.Fprintf(&sb, "%d|%q", t.U, t.S)
	}
	for _, a := range t.Args {
		fmt.Fprintf(&sb, ",%d", a.ID)
	}
	k := sb.String()
	if e, ok := b.tab[k]; ok {
		return e
	}
	b.next++
	t.ID = b.next
	t.hash = k
	b.tab[k] = t
	return t
}

func mask(w int) uint64 {
	if w >= 64 {
		return ^uint64(0)
	}
	return (uint64(1) << uint(w)) - 1
}

func sext(v uint64, w int) int64 {
	if w >= 64 {
		return int64(v)
	}
	sh := uint(64 - w)
	return int64(v<<sh) >> sh
}

func (b *Builder) Var(name string, s Sort) *Term {
	if v, ok := b.varBy[name]; ok {
		if v.Sort != s {
			panic("smt: variable " + name + " redeclared with another sort")
		}
		return v
	}
	v := b.mk(&Term{Op: OVar, Sort: s, S: name})
	b.varBy[name] = v
	b.Vars = append(b.Vars, v)
	return v
}

func (b *Builder) HasVar(name string) bool { _, ok := b.varBy[name]; return ok }

func (b *Builder) BoolC(v bool) *Term {
	u := uint64(0)
	if v {
		u = 1
	}
	return b.mk(&Term{Op: OConst, Sort: Bool, U: u})
}
func (b *Builder) True() *Term  { return b.BoolC(true) }
func (b *Builder) False() *Term { return b.BoolC(false) }
func (b *Builder) BVC(v uint64, w int) *Term {
	return b.mk(&Term{Op: OConst, Sort: BV(w), U: v & mask(w)})
}
func (b *Builder) StrC(s string) *Term { return b.mk(&Term{Op: OConst, Sort: Str, S: s}) }
func (b *Builder) FPC(bits uint64, w int) *Term {
	return b.mk(&Term{Op: OConst, Sort: Sort{K: KFP, W: w}, U: bits & mask(w)})
}
func (b *Builder) F64C(f float64) *Term { return b.FPC(math.Float64bits(f), 64) }
func (b *Builder) F32C(f float32) *Term { return b.FPC(uint64(math.Float32bits(f)), 32) }

func (b *Builder) Not(a *Term) *Term {
	if a.IsConst() {
		return b.BoolC(a.U == 0)
	}
	if a.Op == ONot {
		return a.Args[0]
	}
	return b.mk(&Term{Op: ONot, Sort: Bool, Args: []*Term{a}})
}

func (b *Builder) And(xs ...*Term) *Term {
	var out []*Term
	seen := map[int]bool{}
	for _, x := range xs {
		if x.IsFalse() {
			return x
		}
		if x.IsTrue() || seen[x.ID] {
			continue
		}
		if x.Op == OAnd {
			for _, y := range x.Args {
				if !seen[y.ID] {
					seen[y.ID] = true
					out = append(out, y)
				}
			}
			continue
		}
		seen[x.ID] = true
		out = append(out, x)
	}
	for _, x := range out {
		if x.Op == ONot && seen[x.Args[0].ID] {
			return b.False()
		}
	}
	if len(out) == 0 {
		return b.True()
	}
	if len(out) == 1 {
		return out[0]
	}
	return b.mk(&Term{Op: OAnd, Sort: Bool, Args: out})
}

func (b *Builder) Or(xs ...*Term) *Term {
	var out []*Term
	seen := map[int]bool{}
	for _, x := range xs {
		if x.IsTrue() {
			return x
		}
		if x.IsFalse() || seen[x.ID] {
			continue
		}
		if x.Op == OOr {
			for _, y := range x.Args {
				if !seen[y.ID] {
					seen[y.ID] = true
					out = append(out, y)
				}
			}
			continue
		}
		seen[x.ID] = true
		out = append(out, x)
	}
	for _, x := range out {
		if x.Op == ONot && seen[x.Args[0].ID] {
			return b.True()
		}
	}
	if len(out) == 0 {
		return b.False()
	}
	if len(out) == 1 {
		return out[0]
	}
	return b.mk(&Term{Op: OOr, Sort: Bool, Args: out})
}

func (b *Builder) Implies(a, c *Term) *Term { return b.Or(b.Not(a), c) }

// OrdW is the width reserved for ordinal strings (see package sym): 0 is "", k>0 is the 16-digit hex of k.
const OrdW = 61

// IntFW is the width reserved for "intfloat" values: a float32/float64 known to hold an integer of small magnitude,
// carried as a signed bit-vector so that + - < == are exact and cheap (see package sym).
const IntFW = 47

func (b *Builder) intFCoerce(x, y *Term) (*Term, *Term) {
	xi := x.Sort.K == KBV && x.Sort.W == IntFW
	yi := y.Sort.K == KBV && y.Sort.W == IntFW
	if xi == yi {
		return x, y
	}
	conv := func(t *Term) *Term {
		if t.Sort.K == KFP && t.IsConst() {
			f := fval(t)
			if f == math.Trunc(f) && math.Abs(f) < 1<<40 {
				return b.BVC(uint64(int64(f)), IntFW)
			}
		}
		panic("smt: an intfloat value meets a float that is not a small integer constant: " + Print(t))
	}
	if xi {
		return x, conv(y)
	}
	return conv(x), y
}

func (b *Builder) ordCoerce(x, y *Term) (*Term, *Term) {
	x, y = b.intFCoerce(x, y)
	xo := x.Sort.K == KBV && x.Sort.W == OrdW
	yo := y.Sort.K == KBV && y.Sort.W == OrdW
	if xo == yo {
		return x, y
	}
	conv := func(t *Term) *Term {
		if t.Sort.K == KStr && t.IsConst() {
			if t.S == "" {
				return b.BVC(0, OrdW)
			}
			if len(t.S) == 16 {
				var k uint64
				ok := true
				for i := 0; i < 16; i++ {
					c := t.S[i]
					switch {
					case c >= '0' && c <= '9':
						k = k<<4 | uint64(c-'0')
					case c >= 'a' && c <= 'f':
						k = k<<4 | uint64(c-'a'+10)
					default:
						ok = false
					}
				}
				if ok && k != 0 && k < 1<<OrdW {
					return b.BVC(k, OrdW)
				}
			}
		}
		panic("smt: an ordinal string meets a string that is not an ordinal: " + Print(t))
	}
	if xo {
		return x, conv(y)
	}
	return conv(x), y
}

func (b *Builder) Ite(c, x, y *Term) *Term {
	x, y = b.ordCoerce(x, y)
	if c.IsTrue() {
		return x
	}
	if c.IsFalse() {
		return y
	}
	if x == y {
		return x
	}
	if x.Sort.K == KBool {
		if x.IsTrue() && y.IsFalse() {
			return c
		}
		if x.IsFalse() && y.IsTrue() {
			return b.Not(c)
		}
	}
	return b.mk(&Term{Op: OIte, Sort: x.Sort, Args: []*Term{c, x, y}})
}

func (b *Builder) Eq(x, y *Term) *Term {
	x, y = b.ordCoerce(x, y)
	if x.Sort != y.Sort {
		panic(fmt.Sprintf("smt: Eq sort mismatch %v vs %v", x.Sort, y.Sort))
	}
	if x == y {
		if x.Sort.K != KFP {
			return b.True()
		}
	}
	if x.IsConst() && y.IsConst() {
		if x.Sort.K == KStr {
			return b.BoolC(x.S == y.S)
		}
		return b.BoolC(x.U == y.U) // structural equality (FP: bitwise identity, used for '=' only)
	}
	if x.Sort.K == KBool {
		if x.IsConst() {
			x, y = y, x
		}
		if y.IsTrue() {
			return x
		}
		if y.IsFalse() {
			return b.Not(x)
		}
	}
	if x.ID > y.ID {
		x, y = y, x
	}
	return b.mk(&Term{Op: OEq, Sort: Bool, Args: []*Term{x, y}})
}

func (b *Builder) bin(op Op, x, y *Term) *Term {
	if x.Sort != y.Sort {
		panic(fmt.Sprintf("smt: op %v sort mismatch %v vs %v", opNames[op], x.Sort, y.Sort))
	}
	w := x.Sort.W
	if x.IsConst() && y.IsConst() {
		a, c := x.U, y.U
		switch op {
		case OAdd:
			return b.BVC(a+c, w)
		case OSub:
			return b.BVC(a-c, w)
		case OMul:
			return b.BVC(a*c, w)
		case OBAnd:
			return b.BVC(a&c, w)
		case OBOr:
			return b.BVC(a|c, w)
		case OBXor:
			return b.BVC(a^c, w)
		case OUDiv:
			if c != 0 {
				return b.BVC(a/c, w)
			}
		case OURem:
			if c != 0 {
				return b.BVC(a%c, w)
			}
		case OSDiv:
			if c != 0 {
				sa, sc := sext(a, w), sext(c, w)
				if !(sc == -1 && sa == math.MinInt64) {
					return b.BVC(uint64(sa/sc), w)
				}
				return b.BVC(uint64(sa), w)
			}
		case OSRem:
			if c != 0 {
				sa, sc := sext(a, w), sext(c, w)
				if sc == -1 {
					return b.BVC(0, w)
				}
				return b.BVC(uint64(sa%sc), w)
			}
		case OShl:
			if c >= uint64(w) {
				return b.BVC(0, w)
			}
			return b.BVC(a<<c, w)
		case OLshr:
			if c >= uint64(w) {
				return b.BVC(0, w)
			}
			return b.BVC(a>>c, w)
		case OAshr:
			sa := sext(a, w)
			if c >= uint64(w) {
				c = uint64(w - 1)
			}
			return b.BVC(uint64(sa>>c), w)
		}
	}
	switch op {
	case OAdd, OBOr, OBXor:
		if x.IsConst() && x.U == 0 {
			return y
		}
		if y.IsConst() && y.U == 0 {
			return x
		}
	case OSub:
		if y.IsConst() && y.U == 0 {
			return x
		}
		if x == y {
			return b.BVC(0, w)
		}
	case OMul:
		if x.IsConst() && x.U == 1 {
			return y
		}
		if y.IsConst() && y.U == 1 {
			return x
		}
		if (x.IsConst() && x.U == 0) || (y.IsConst() && y.U == 0) {
			return b.BVC(0, w)
		}
	}
	if (op == OAdd || op == OMul || op == OBAnd || op == OBOr || op == OBXor) && x.ID > y.ID {
		x, y = y, x
	}
	return b.mk(&Term{Op: op, Sort: x.Sort, Args: []*Term{x, y}})
}

func (b *Builder) Add(x, y *Term) *Term  { return b.bin(OAdd, x, y) }
func (b *Builder) Sub(x, y *Term) *Term  { return b.bin(OSub, x, y) }
func (b *Builder) Mul(x, y *Term) *Term  { return b.bin(OMul, x, y) }
func (b *Builder) UDiv(x, y *Term) *Term { return b.bin(OUDiv, x, y) }
func (b *Builder) SDiv(x, y *Term) *Term { return b.bin(OSDiv, x, y) }
func (b *Builder) URem(x, y *Term) *Term { return b.bin(OURem, x, y) }
func (b *Builder) SRem(x, y *Term) *Term { return b.bin(OSRem, x, y) }
func (b *Builder) BAnd(x, y *Term) *Term { return b.bin(OBAnd, x, y) }
func (b *Builder) BOr(x, y *Term) *Term  { return b.bin(OBOr, x, y) }
func (b *Builder) BXor(x, y *Term) *Term { return b.bin(OBXor, x, y) }
func (b *Builder) Shl(x, y *Term) *Term  { return b.bin(OShl, x, y) }
func (b *Builder) Lshr(x, y *Term) *Term { return b.bin(OLshr, x, y) }
func (b *Builder) Ashr(x, y *Term) *Term { return b.bin(OAshr, x, y) }

func (b *Builder) Neg(x *Term) *Term {
	if x.IsConst() {
		return b.BVC(-x.U, x.Sort.W)
	}
	return b.mk(&Term{Op: ONeg, Sort: x.Sort, Args: []*Term{x}})
}
func (b *Builder) BNot(x *Term) *Term {
	if x.IsConst() {
		return b.BVC(^x.U, x.Sort.W)
	}
	return b.mk(&Term{Op: OBNot, Sort: x.Sort, Args: []*Term{x}})
}

func (b *Builder) cmp(op Op, x, y *Term) *Term {
	if x.Sort != y.Sort {
		panic(fmt.Sprintf("smt: cmp sort mismatch %v vs %v", x.Sort, y.Sort))
	}
	w := x.Sort.W
	if x.IsConst() && y.IsConst() {
		switch op {
		case OUlt:
			return b.BoolC(x.U < y.U)
		case OUle:
			return b.BoolC(x.U <= y.U)
		case OSlt:
			return b.BoolC(sext(x.U, w) < sext(y.U, w))
		case OSle:
			return b.BoolC(sext(x.U, w) <= sext(y.U, w))
		case OStrLt:
			return b.BoolC(x.S < y.S)
		case OStrLe:
			return b.BoolC(x.S <= y.S)
		}
	}
	if x == y {
		switch op {
		case OUlt, OSlt, OStrLt:
			return b.False()
		case OUle, OSle, OStrLe:
			return b.True()
		}
	}
	return b.mk(&Term{Op: op, Sort: Bool, Args: []*Term{x, y}})
}
func (b *Builder) Ult(x, y *Term) *Term   { return b.cmp(OUlt, x, y) }
func (b *Builder) Ule(x, y *Term) *Term   { return b.cmp(OUle, x, y) }
func (b *Builder) Slt(x, y *Term) *Term   { return b.cmp(OSlt, x, y) }
func (b *Builder) Sle(x, y *Term) *Term   { return b.cmp(OSle, x, y) }
func (b *Builder) StrLt(x, y *Term) *Term { return b.cmp(OStrLt, x, y) }
func (b *Builder) StrLe(x, y *Term) *Term { return b.cmp(OStrLe, x, y) }

func (b *Builder) StrCat(x, y *Term) *Term {
	if x.IsConst() && y.IsConst() {
		return b.StrC(x.S + y.S)
	}
	if x.IsConst() && x.S == "" {
		return y
	}
	if y.IsConst() && y.S == "" {
		return x
	}
	return b.mk(&Term{Op: OStrCat, Sort: Str, Args: []*Term{x, y}})
}
func (b *Builder) StrLen(x *Term) *Term {
	if x.IsConst() {
		return b.BVC(uint64(len(x.S)), 64)
	}
	return b.mk(&Term{Op: OStrLen, Sort: BV(64), Args: []*Term{x}})
}

func (b *Builder) Zext(x *Term, to int) *Term {
	if to == x.Sort.W {
		return x
	}
	if x.IsConst() {
		return b.BVC(x.U, to)
	}
	return b.mk(&Term{Op: OZext, Sort: BV(to), Args: []*Term{x}, P: to - x.Sort.W})
}
func (b *Builder) Sext(x *Term, to int) *Term {
	if to == x.Sort.W {
		return x
	}
	if x.IsConst() {
		return b.BVC(uint64(sext(x.U, x.Sort.W)), to)
	}
	return b.mk(&Term{Op: OSext, Sort: BV(to), Args: []*Term{x}, P: to - x.Sort.W})
}
func (b *Builder) Extract(x *Term, hi, lo int) *Term {
	if hi-lo+1 == x.Sort.W {
		return x
	}
	if x.IsConst() {
		return b.BVC(x.U>>uint(lo), hi-lo+1)
	}
	return b.mk(&Term{Op: OExtract, Sort: BV(hi - lo + 1), Args: []*Term{x}, P: hi, Q: lo})
}

// ---- floating point ----

func fval(t *Term) float64 {
	if t.Sort.W == 32 {
		return float64(math.Float32frombits(uint32(t.U)))
	}
	return math.Float64frombits(t.U)
}
func (b *Builder) fconst(v float64, w int) *Term {
	if w == 32 {
		return b.F32C(float32(v))
	}
	return b.F64C(v)
}

func (b *Builder) FBin(op Op, x, y *Term) *Term {
	if x.Sort != y.Sort {
		panic("smt: fp sort mismatch")
	}
	if x.IsConst() && y.IsConst() {
		a, c := fval(x), fval(y)
		w := x.Sort.W
		if w == 32 {
			a32, c32 := float32(a), float32(c)
			switch op {
			case OFAdd:
				return b.F32C(a32 + c32)
			case OFSub:
				return b.F32C(a32 - c32)
			case OFMul:
				return b.F32C(a32 * c32)
			case OFDiv:
				return b.F32C(a32 / c32)
			}
		} else {
			switch op {
			case OFAdd:
				return b.F64C(a + c)
			case OFSub:
				return b.F64C(a - c)
			case OFMul:
				return b.F64C(a * c)
			case OFDiv:
				return b.F64C(a / c)
			}
		}
	}
	return b.mk(&Term{Op: op, Sort: x.Sort, Args: []*Term{x, y}})
}
func (b *Builder) FCmp(op Op, x, y *Term) *Term {
	if op == OFEq && x.ID > y.ID {
		x, y = y, x // fp.eq is symmetric
	}
	if x.IsConst() && y.IsConst() {
		a, c := fval(x), fval(y)
		switch op {
		case OFLt:
			return b.BoolC(a < c)
		case OFLe:
			return b.BoolC(a <= c)
		case OFEq:
			return b.BoolC(a == c)
		}
	}
	return b.mk(&Term{Op: op, Sort: Bool, Args: []*Term{x, y}})
}
func (b *Builder) FUn(op Op, x *Term) *Term {
	if x.IsConst() {
		a := fval(x)
		switch op {
		case OFNeg:
			return b.fconst(-a, x.Sort.W)
		case OFAbs:
			return b.fconst(math.Abs(a), x.Sort.W)
		case OFIsNaN:
			return b.BoolC(math.IsNaN(a))
		case OFIsInf:
			return b.BoolC(math.IsInf(a, 0))
		case OFIsNeg:
			return b.BoolC(math.Signbit(a) && !math.IsNaN(a))
		case OFRound:
			return b.fconst(math.RoundToEven(a), x.Sort.W)
		}
	}
	s := x.Sort
	if op == OFIsNaN || op == OFIsInf || op == OFIsNeg {
		s = Bool
	}
	if op == OFAbs && x.Op == OFSub && x.Args[0].ID > x.Args[1].ID {
		// IEEE identity under round-to-nearest: x-y = -(y-x), hence |x-y| = |y-x| (trusted base; keeps symmetric code syntactically symmetric)
		x = b.mk(&Term{Op: OFSub, Sort: x.Sort, Args: []*Term{x.Args[1], x.Args[0]}})
	}
	return b.mk(&Term{Op: op, Sort: s, Args: []*Term{x}})
}
func (b *Builder) FFromSBV(x *Term, w int) *Term {
	if x.IsConst() {
		return b.fconst(float64(sext(x.U, x.Sort.W)), w)
	}
	return b.mk(&Term{Op: OFFromSBV, Sort: Sort{K: KFP, W: w}, Args: []*Term{x}, P: w})
}
func (b *Builder) FFromUBV(x *Term, w int) *Term {
	if x.IsConst() {
		return b.fconst(float64(x.U), w)
	}
	return b.mk(&Term{Op: OFFromUBV, Sort: Sort{K: KFP, W: w}, Args: []*Term{x}, P: w})
}
func (b *Builder) FToSBV(x *Term, w int) *Term {
	if x.IsConst() {
		f := fval(x)
		if !math.IsNaN(f) && !math.IsInf(f, 0) && math.Abs(f) < 9e18 {
			return b.BVC(uint64(int64(f)), w)
		}
	}
	return b.mk(&Term{Op: OFToSBV, Sort: BV(w), Args: []*Term{x}, P: w})
}
func (b *Builder) FToFP(x *Term, w int) *Term {
	if x.Sort.W == w {
		return x
	}
	if x.IsConst() {
		return b.fconst(fval(x), w)
	}
	if x.Op == OFToFP && x.Args[0].Sort.W == w && w < x.Sort.W {
		return x.Args[0] // widening then narrowing back is exact
	}
	return b.mk(&Term{Op: OFToFP, Sort: Sort{K: KFP, W: w}, Args: []*Term{x}, P: w})
}
func (b *Builder) FFromBits(x *Term) *Term {
	if x.IsConst() {
		return b.FPC(x.U, x.Sort.W)
	}
	return b.mk(&Term{Op: OFFromBits, Sort: Sort{K: KFP, W: x.Sort.W}, Args: []*Term{x}})
}
func (b *Builder) FToBits(x *Term) *Term {
	if x.IsConst() {
		return b.BVC(x.U, x.Sort.W)
	}
	if x.Op == OFFromBits {
		return x.Args[0]
	}
	return b.mk(&Term{Op: OFToBits, Sort: BV(x.Sort.W), Args: []*Term{x}})
}

// ---- printing ----

func bvLit(v uint64, w int) string {
	if w%4 == 0 {
		return fmt.Sprintf("#x%0*x", w/4, v&mask(w))
	}
	return fmt.Sprintf("#b%0*b", w, v&mask(w))
}

func strLit(s string) string {
	var sb strings.Builder
	sb.WriteByte('"')
	for i := 0; i < len(s); i++ {
		c := s[i]
		switch {
		case c == '"':
			sb.WriteString(`""`)
		case c == '\\' || c < 0x20 || c > 0x7e:
			fmt.Fprintf(&sb, `\u{%x}`, c)
		default:
			sb.WriteByte(c)
		}
	}
	sb.WriteByte('"')
	return sb.String()
}

func fpLit(bits uint64, w int) string {
	if w == 32 {
		return fmt.Sprintf("(fp #b%01b #b%08b #b%023b)", (bits>>31)&1, (bits>>23)&0xff, bits&0x7fffff)
	}
	return fmt.Sprintf("(fp #b%01b #b%011b #b%052b)", (bits>>63)&1, (bits>>52)&0x7ff, bits&0xfffffffffffff)
}

func fpParams(w int) string {
	if w == 32 {
		return "8 24"
	}
	return "11 53"
}

// Name returns the SMT identifier for a variable name.
func SymName(name string) string { return "|" + strings.ReplaceAll(name, "|", "_") + "|" }

// Print renders t as an SMT-LIB2 expression; shared sub-terms are let-bound.
func Print(t *Term) string {
	refs := map[*Term]int{}
	var order []*Term
	var walk func(x *Term)
	walk = func(x *Term) {
		refs[x]++
		if refs[x] > 1 {
			return
		}
		for _, a := range x.Args {
			walk(a)
		}
		order = append(order, x) // post-order
	}
	walk(t)
	names := map[*Term]string{}
	var render func(x *Term) string
	render = func(x *Term) string {
		if n, ok := names[x]; ok {
			return n
		}
		return renderNode(x, render)
	}
	var sb strings.Builder
	nlet := 0
	for _, x := range order {
		if x != t && refs[x] > 1 && len(x.Args) > 0 {
			body := renderNode(x, render)
			n := "?t" + strconv.Itoa(x.ID)
			fmt.Fprintf(&sb, "(let ((%s %s)) ", n, body)
			names[x] = n
			nlet++
		}
	}
	sb.WriteString(renderNode(t, render))
	sb.WriteString(strings.Repeat(")", nlet))
	return sb.String()
}

func renderNode(x *Term, r func(*Term) string) string {
	switch x.Op {
	case OVar:
		return SymName(x.S)
	case OConst:
		switch x.Sort.K {
		case KBool:
			if x.U == 1 {
				return "true"
			}
			return "false"
		case KBV:
			return bvLit(x.U, x.Sort.W)
		case KStr:
			return strLit(x.S)
		case KFP:
			return fpLit(x.U, x.Sort.W)
		}
	case OZext:
		return fmt.Sprintf("((_ zero_extend %d) %s)", x.P, r(x.Args[0]))
	case OSext:
		return fmt.Sprintf("((_ sign_extend %d) %s)", x.P, r(x.Args[0]))
	case OExtract:
		return fmt.Sprintf("((_ extract %d %d) %s)", x.P, x.Q, r(x.Args[0]))
	case OStrLen:
		return fmt.Sprintf("((_ int2bv 64) (str.len %s))", r(x.Args[0]))
	case OFAdd, OFSub, OFMul, OFDiv:
		n := map[Op]string{OFAdd: "fp.add", OFSub: "fp.sub", OFMul: "fp.mul", OFDiv: "fp.div"}[x.Op]
		return fmt.Sprintf("(%s RNE %s %s)", n, r(x.Args[0]), r(x.Args[1]))
	case OFRound:
		return fmt.Sprintf("(fp.roundToIntegral RNE %s)", r(x.Args[0]))
	case OFFromSBV:
		return fmt.Sprintf("((_ to_fp %s) RNE %s)", fpParams(x.P), r(x.Args[0]))
	case OFFromUBV:
		return fmt.Sprintf("((_ to_fp_unsigned %s) RNE %s)", fpParams(x.P), r(x.Args[0]))
	case OFToSBV:
		return fmt.Sprintf("((_ fp.to_sbv %d) RTZ %s)", x.P, r(x.Args[0]))
	case OFToFP:
		return fmt.Sprintf("((_ to_fp %s) RNE %s)", fpParams(x.P), r(x.Args[0]))
	case OFFromBits:
		return fmt.Sprintf("((_ to_fp %s) %s)", fpParams(x.Sort.W), r(x.Args[0]))
	}
	n, ok := opNames[x.Op]
	if !ok {
		panic(fmt.Sprintf("smt: cannot print op %d", x.Op))
	}
	var sb strings.Builder
	sb.WriteByte('(')
	sb.WriteString(n)
	for _, a := range x.Args {
		sb.WriteByte(' ')
		sb.WriteString(r(a))
	}
	sb.WriteByte(')')
	return sb.String()
}

// VarsOf returns the variables occurring in the terms, sorted by name.
func VarsOf(ts ...*Term) []*Term {
	seen := map[*Term]bool{}
	var out []*Term
	var walk func(x *Term)
	walk = func(x *Term) {
		if seen[x] {
			return
		}
		seen[x] = true
		if x.Op == OVar {
			out = append(out, x)
		}
		for _, a := range x.Args {
			walk(a)
		}
	}
	for _, t := range ts {
		walk(t)
	}
	sort.Slice(out, func(i, j int) bool { return out[i].S < out[j].S })
	return out
}
