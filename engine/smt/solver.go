package smt

import (
	"bufio"
	"fmt"
	"io"
	"os"
	"os/exec"
	"strconv"
	"strings"
	"time"
)

type Result int

const (
	Unsat Result = iota
	Sat
	Unknown
)

func (r Result) String() string { return [...]string{"unsat", "sat", "unknown"}[r] }

// Solver is one long-lived solver process spoken to over stdin/stdout.
type Solver struct {
	Name        string
	cmd         *exec.Cmd
	in          io.WriteCloser
	out         *bufio.Reader
	Queries     map[Result]int
	Time        time.Duration
	Errors      []string
	Log         io.Writer
	declared    []map[string]bool // per push level
	timeoutMs   int
	keepAll     bool
	inRetry     bool
	Retried     int
	lastAsserts []string
}

func solverArgs(name string, timeoutMs int) (string, []string) {
	switch name {
	case "z3":
		return "z3", []string{"-in", fmt.Sprintf("-t:%d", timeoutMs)}
	case "z3-new":
		return "z3-new", []string{"-in", fmt.Sprintf("-t:%d", timeoutMs)}
	case "cvc5":
		return "cvc5", []string{"--incremental", "--strings-exp", "--produce-models", fmt.Sprintf("--tlimit-per=%d", timeoutMs), "--lang=smt2"}
	}
	return name, nil
}

func NewSolver(name string, timeoutMs int) (*Solver, error) {
	bin, args := solverArgs(name, timeoutMs)
	cmd := exec.Command(bin, args...)
	in, err := cmd.StdinPipe()
	if err != nil {
		return nil, err
	}
	outp, err := cmd.StdoutPipe()
	if err != nil {
		return nil, err
	}
	cmd.Stderr = cmd.Stdout
	if err := cmd.Start(); err != nil {
		return nil, err
	}
	s := &Solver{Name: name, cmd: cmd, in: in, out: bufio.NewReaderSize(outp, 1<<16), Queries: map[Result]int{}, timeoutMs: timeoutMs}
	s.declared = []map[string]bool{{}}
	s.keepAll = os.Getenv("SYMGO_DUMP_UNKNOWN") != ""
	if name == "cvc5" {
		s.send("(set-logic ALL)")
	}
	s.send("(set-option :produce-models true)")
	return s, nil
}

func (s *Solver) Close() {
	if s == nil || s.cmd == nil {
		return
	}
	s.in.Close()
	s.cmd.Process.Kill()
	s.cmd.Wait()
	s.cmd = nil
}

func (s *Solver) send(line string) {
	if s.keepAll {
		s.lastAsserts = append(s.lastAsserts, line)
	}
	if s.Log != nil {
		fmt.Fprintln(s.Log, line)
	}
	io.WriteString(s.in, line)
	io.WriteString(s.in, "\n")
}

func (s *Solver) Push() {
	s.send("(push 1)")
	s.declared = append(s.declared, map[string]bool{})
}
func (s *Solver) Pop() {
	s.send("(pop 1)")
	s.declared = s.declared[:len(s.declared)-1]
}
func (s *Solver) Depth() int { return len(s.declared) - 1 }

func (s *Solver) isDeclared(n string) bool {
	for _, m := range s.declared {
		if m[n] {
			return true
		}
	}
	return false
}

func (s *Solver) declareFor(ts ...*Term) {
	for _, v := range VarsOf(ts...) {
		if !s.isDeclared(v.S) {
			s.declared[len(s.declared)-1][v.S] = true
			s.send(fmt.Sprintf("(declare-const %s %s)", SymName(v.S), v.Sort))
		}
	}
}

func (s *Solver) Assert(t *Term) {
	if t.IsTrue() {
		return
	}
	s.declareFor(t)
	s.send("(assert " + Print(t) + ")")
}

// Check runs check-sat on the current assertion stack.
func (s *Solver) Check() Result {
	t0 := time.Now()
	staged := (s.Name == "z3" || s.Name == "z3-new") && !s.inRetry && s.timeoutMs > 4000
	if staged {
		// stage 1: the incremental core with a short timeout; stage 2 (on unknown): the eager bit-blasting tactic;
		// stage 3: the incremental core with the full timeout
		s.send("(set-option :timeout 2000)")
	}
	s.send("(check-sat)")
	r := Unknown
	line, err := s.readLine()
	for err == nil && strings.HasPrefix(line, "(error") {
		s.Errors = append(s.Errors, line)
		line, err = s.readLine()
		r = Unknown
		if line == "sat" || line == "unsat" || line == "unknown" {
			// an error preceded the answer: the answer cannot be trusted
			s.Time += time.Since(t0)
			s.Queries[Unknown]++
			return Unknown
		}
	}
	if err != nil {
		s.Errors = append(s.Errors, "solver died: "+err.Error())
		s.Queries[Unknown]++
		return Unknown
	}
	switch line {
	case "sat":
		r = Sat
	case "unsat":
		r = Unsat
	case "unknown", "timeout":
		r = Unknown
	default:
		s.Errors = append(s.Errors, "unexpected solver output: "+line)
		r = Unknown
	}
	if staged {
		s.send(fmt.Sprintf("(set-option :timeout %d)", s.timeoutMs))
	}
	if r == Unknown && (s.Name == "z3" || s.Name == "z3-new") && !s.inRetry {
		// the default (lazy) core can be slow on pure bit-vector arithmetic: retry once with the eager QF_BV tactic,
		// which fails harmlessly (error => still unknown) when other theories are present
		s.inRetry = true
		s.send("(check-sat-using (then simplify propagate-values solve-eqs bit-blast sat))")
		if line2, err2 := s.readLine(); err2 == nil {
			switch line2 {
			case "sat":
				r = Sat
				s.Retried++
			case "unsat":
				r = Unsat
				s.Retried++
			}
		}
		if r == Unknown && staged {
			s.send("(check-sat)")
			if line3, err3 := s.readLine(); err3 == nil {
				switch line3 {
				case "sat":
					r = Sat
				case "unsat":
					r = Unsat
				}
			}
		}
		s.inRetry = false
	}
	s.Time += time.Since(t0)
	s.Queries[r]++
	if r == Unknown && os.Getenv("SYMGO_DUMP_UNKNOWN") != "" && s.lastAsserts != nil {
		f, _ := os.CreateTemp(os.Getenv("SYMGO_DUMP_UNKNOWN"), "unknown-*.smt2")
		if f != nil {
			for _, l := range s.lastAsserts {
				fmt.Fprintln(f, l)
			}
			f.Close()
		}
	}
	return r
}

// CheckWith checks the stack plus extra assertions without keeping them.
func (s *Solver) CheckWith(extra ...*Term) Result {
	s.Push()
	for _, e := range extra {
		s.Assert(e)
	}
	r := s.Check()
	s.Pop()
	return r
}

func (s *Solver) readLine() (string, error) {
	for {
		l, err := s.out.ReadString('\n')
		if err != nil {
			return "", err
		}
		l = strings.TrimSpace(l)
		if l == "" {
			continue
		}
		if l == "success" {
			continue
		}
		return l, nil
	}
}

// readSexp reads one balanced s-expression (possibly spanning lines).
func (s *Solver) readSexp() (string, error) {
	var sb strings.Builder
	depth := 0
	inStr := false
	started := false
	for {
		c, err := s.out.ReadByte()
		if err != nil {
			return sb.String(), err
		}
		if !started {
			if c == ' ' || c == '\n' || c == '\r' || c == '\t' {
				continue
			}
			started = true
		}
		sb.WriteByte(c)
		if inStr {
			if c == '"' {
				inStr = false
			}
			continue
		}
		switch c {
		case '"':
			inStr = true
		case '(':
			depth++
		case ')':
			depth--
			if depth == 0 {
				return sb.String(), nil
			}
		case '\n':
			if depth == 0 {
				return strings.TrimSpace(sb.String()), nil
			}
		}
	}
}

// Model value of a term.
type ModelVal struct {
	Sort Sort
	U    uint64
	S    string
}

// Values asks for the values of the given terms after a Sat answer.
func (s *Solver) Values(ts []*Term) ([]ModelVal, error) {
	if len(ts) == 0 {
		return nil, nil
	}
	out := make([]ModelVal, 0, len(ts))
	// ask in chunks to keep lines short
	for i := 0; i < len(ts); i += 50 {
		j := i + 50
		if j > len(ts) {
			j = len(ts)
		}
		var sb strings.Builder
		sb.WriteString("(get-value (")
		for _, t := range ts[i:j] {
			s.declareFor(t)
			if t.Sort.K == KFP {
				sb.WriteString("(fp.to_ieee_bv " + Print(t) + ") ")
			} else {
				sb.WriteString(Print(t) + " ")
			}
		}
		sb.WriteString("))")
		s.send(sb.String())
		txt, err := s.readSexp()
		if err != nil {
			return nil, err
		}
		if strings.HasPrefix(txt, "(error") {
			return nil, fmt.Errorf("get-value: %s", txt)
		}
		vals, err := parseValueList(txt)
		if err != nil {
			return nil, fmt.Errorf("%v in %q", err, txt)
		}
		if len(vals) != j-i {
			return nil, fmt.Errorf("get-value: expected %d values, got %d: %s", j-i, len(vals), txt)
		}
		for k, v := range vals {
			mv, err := parseVal(v, ts[i+k].Sort)
			if err != nil {
				return nil, err
			}
			out = append(out, mv)
		}
	}
	return out, nil
}

// parseValueList splits "((e1 v1) (e2 v2))" into the v_i texts.
func parseValueList(txt string) ([]string, error) {
	p := &sx{s: txt}
	top, err := p.parse()
	if err != nil {
		return nil, err
	}
	var out []string
	for _, pair := range top.kids {
		if len(pair.kids) < 2 {
			return nil, fmt.Errorf("bad pair")
		}
		out = append(out, pair.kids[len(pair.kids)-1].text())
	}
	return out, nil
}

type node struct {
	atom string
	kids []*node
	list bool
}

func (n *node) text() string {
	if !n.list {
		return n.atom
	}
	var parts []string
	for _, k := range n.kids {
		parts = append(parts, k.text())
	}
	return "(" + strings.Join(parts, " ") + ")"
}

type sx struct {
	s string
	i int
}

func (p *sx) ws() {
	for p.i < len(p.s) && (p.s[p.i] == ' ' || p.s[p.i] == '\n' || p.s[p.i] == '\t' || p.s[p.i] == '\r') {
		p.i++
	}
}
func (p *sx) parse() (*node, error) {
	p.ws()
	if p.i >= len(p.s) {
		return nil, fmt.Errorf("eof")
	}
	if p.s[p.i] == '(' {
		p.i++
		n := &node{list: true}
		for {
			p.ws()
			if p.i >= len(p.s) {
				return nil, fmt.Errorf("eof in list")
			}
			if p.s[p.i] == ')' {
				p.i++
				return n, nil
			}
			k, err := p.parse()
			if err != nil {
				return nil, err
			}
			n.kids = append(n.kids, k)
		}
	}
	st := p.i
	if p.s[p.i] == '"' {
		p.i++
		for p.i < len(p.s) {
			if p.s[p.i] == '"' {
				if p.i+1 < len(p.s) && p.s[p.i+1] == '"' {
					p.i += 2
					continue
				}
				p.i++
				break
			}
			p.i++
		}
		return &node{atom: p.s[st:p.i]}, nil
	}
	if p.s[p.i] == '|' {
		p.i++
		for p.i < len(p.s) && p.s[p.i] != '|' {
			p.i++
		}
		p.i++
		return &node{atom: p.s[st:p.i]}, nil
	}
	for p.i < len(p.s) && !strings.ContainsRune(" \n\t\r()", rune(p.s[p.i])) {
		p.i++
	}
	return &node{atom: p.s[st:p.i]}, nil
}

func parseVal(v string, so Sort) (ModelVal, error) {
	mv := ModelVal{Sort: so}
	switch so.K {
	case KBool:
		switch v {
		case "true":
			mv.U = 1
		case "false":
			mv.U = 0
		default:
			return mv, fmt.Errorf("bad bool value %q", v)
		}
	case KBV, KFP:
		switch {
		case strings.HasPrefix(v, "#x"):
			u, err := strconv.ParseUint(v[2:], 16, 64)
			if err != nil {
				return mv, err
			}
			mv.U = u
		case strings.HasPrefix(v, "#b"):
			u, err := strconv.ParseUint(v[2:], 2, 64)
			if err != nil {
				return mv, err
			}
			mv.U = u
		case strings.HasPrefix(v, "(_ bv"):
			f := strings.Fields(strings.Trim(v, "()"))
			u, err := strconv.ParseUint(strings.TrimPrefix(f[1], "bv"), 10, 64)
			if err != nil {
				return mv, err
			}
			mv.U = u
		default:
			return mv, fmt.Errorf("bad bv value %q", v)
		}
	case KStr:
		if len(v) < 2 || v[0] != '"' {
			return mv, fmt.Errorf("bad string value %q", v)
		}
		mv.S = unescapeSMT(v[1 : len(v)-1])
	}
	return mv, nil
}

func unescapeSMT(s string) string {
	var out []byte
	for i := 0; i < len(s); {
		if s[i] == '"' && i+1 < len(s) && s[i+1] == '"' {
			out = append(out, '"')
			i += 2
			continue
		}
		if s[i] == '\\' && i+1 < len(s) && s[i+1] == 'u' {
			// \u{X..} or \uXXXX
			if i+2 < len(s) && s[i+2] == '{' {
				j := strings.IndexByte(s[i:], '}')
				if j > 0 {
					cp, err := strconv.ParseUint(s[i+3:i+j], 16, 32)
					if err == nil {
						out = append(out, []byte(string(rune(cp)))...)
						i += j + 1
						continue
					}
				}
			} else if i+6 <= len(s) {
				cp, err := strconv.ParseUint(s[i+2:i+6], 16, 32)
				if err == nil {
					out = append(out, []byte(string(rune(cp)))...)
					i += 6
					continue
				}
			}
		}
		if s[i] == '\\' && i+1 < len(s) && s[i+1] == 'x' && i+4 <= len(s) {
			cp, err := strconv.ParseUint(s[i+2:i+4], 16, 32)
			if err == nil {
				out = append(out, []byte(string(rune(cp)))...)
				i += 4
				continue
			}
		}
		out = append(out, s[i])
		i++
	}
	return string(out)
}
