package sym

import (
	"fmt"
	"go/types"

	"verif/engine/smt"
)

type ChanObj struct {
	id     int
	cap    int
	buf    []Value
	closed bool
	elemT  types.Type
	vc     []int
	name   string
}

func (ex *Exec) newChan(capacity int, et types.Type) *ChanObj {
	ex.nobj++
	return &ChanObj{id: ex.nobj, cap: capacity, elemT: et}
}

type selCase struct {
	Send bool
	Ch   *ChanObj
	Val  Value
}

// VisOp is a pending visible (synchronisation) operation of a goroutine.
type VisOp struct {
	Kind string
	// simple operations
	Simple  bool
	Enabled func() bool // nil: always enabled
	Fire    func()
	Obj     any
	ObjIDs  []int
	// channel operations
	Cases      []selCase
	HasDefault bool
	Done       func(idx int, recv Value, ok bool)
}

type mutexState struct {
	id      int
	locked  bool
	owner   int
	readers int
	rhold   map[int]int // read locks held per goroutine (to spot recursive read locking)
	vc      []int
}
type wgState struct {
	id int
	n  int
	vc []int
}
type onceState struct {
	done bool
}

type transition struct {
	g    *G
	ci   int // case index for channel ops (-1: default)
	peer *G
	pi   int
	desc string
}

// key identifies a transition across re-executions of the same path prefix.
func (t transition) key() string {
	if t.peer != nil {
		return fmt.Sprintf("g%d.%d>g%d.%d", t.g.id, t.ci, t.peer.id, t.pi)
	}
	return fmt.Sprintf("g%d.%d:%s", t.g.id, t.ci, t.desc)
}

// footprint: goroutines and synchronisation objects a transition touches (universal: conflicts with everything).
type footprint struct {
	gs        []int
	objs      []int
	universal bool
}

func objID(o any) (int, bool) {
	switch x := o.(type) {
	case *mutexState:
		return x.id, true
	case *wgState:
		return x.id, true
	case *ChanObj:
		if x == nil {
			return 0, false
		}
		return x.id, true
	case *CtxObj:
		return x.done.id, true
	}
	return 0, false
}

func (ex *Exec) footprintOf(t transition) footprint {
	fp := footprint{gs: []int{t.g.id}}
	if t.peer != nil {
		fp.gs = append(fp.gs, t.peer.id)
	}
	op := t.g.pending
	if op.Simple {
		if op.Kind == "yield" {
			return fp
		}
		if len(op.ObjIDs) > 0 {
			fp.objs = op.ObjIDs
			return fp
		}
		if id, ok := objID(op.Obj); ok {
			fp.objs = []int{id}
		} else {
			fp.universal = true
		}
		return fp
	}
	if t.ci < 0 {
		for _, c := range op.Cases {
			if c.Ch != nil {
				fp.objs = append(fp.objs, c.Ch.id)
			}
		}
		return fp
	}
	fp.objs = []int{op.Cases[t.ci].Ch.id}
	return fp
}

func independent(a, b footprint) bool {
	if a.universal || b.universal {
		return false
	}
	for _, x := range a.gs {
		for _, y := range b.gs {
			if x == y {
				return false
			}
		}
	}
	for _, x := range a.objs {
		for _, y := range b.objs {
			if x == y {
				return false
			}
		}
	}
	return true
}

func (ex *Exec) enabledTransitions() []transition {
	var ts []transition
	for _, g := range ex.gs {
		op := g.pending
		if g.done || op == nil {
			continue
		}
		if op.Simple {
			if op.Enabled == nil || op.Enabled() {
				ts = append(ts, transition{g: g, desc: op.Kind})
			}
			continue
		}
		any := false
		for i, c := range op.Cases {
			if c.Ch == nil {
				continue
			}
			if c.Send {
				if c.Ch.closed {
					ts = append(ts, transition{g: g, ci: i, desc: "send-closed"})
					any = true
					continue
				}
				if len(c.Ch.buf) < c.Ch.cap {
					ts = append(ts, transition{g: g, ci: i, desc: "send-buf"})
					any = true
					continue
				}
				// rendezvous with a receiver
				for _, h := range ex.gs {
					if h == g || h.done || h.pending == nil || h.pending.Simple {
						continue
					}
					for j, hc := range h.pending.Cases {
						if !hc.Send && hc.Ch == c.Ch && len(c.Ch.buf) == 0 {
							ts = append(ts, transition{g: g, ci: i, peer: h, pi: j, desc: "rendezvous"})
							any = true
						}
					}
				}
			} else {
				if len(c.Ch.buf) > 0 {
					ts = append(ts, transition{g: g, ci: i, desc: "recv-buf"})
					any = true
					continue
				}
				if c.Ch.closed {
					ts = append(ts, transition{g: g, ci: i, desc: "recv-closed"})
					any = true
					continue
				}
				// rendezvous is generated from the sender side; note whether one exists
				for _, h := range ex.gs {
					if h == g || h.done || h.pending == nil || h.pending.Simple {
						continue
					}
					for _, hc := range h.pending.Cases {
						if hc.Send && hc.Ch == c.Ch {
							any = true
						}
					}
				}
			}
		}
		if op.HasDefault && !any {
			ts = append(ts, transition{g: g, ci: -1, desc: "default"})
		}
	}
	return ts
}

func (t transition) involves(g *G) bool { return t.g == g || t.peer == g }

// fire executes a transition.
func (ex *Exec) fire(t transition) {
	g := t.g
	op := g.pending
	ex.cur = g
	if op.Simple {
		g.pending = nil
		op.Fire()
		return
	}
	if t.ci < 0 {
		g.pending = nil
		op.Done(-1, nil, false)
		return
	}
	c := op.Cases[t.ci]
	switch {
	case c.Send && c.Ch.closed:
		g.pending = nil
		ex.rtPanic(g, "send on closed channel")
	case c.Send && t.peer == nil:
		c.Ch.buf = append(c.Ch.buf, c.Val)
		if ex.race != nil {
			ex.race.release(g, c.Ch)
		}
		g.pending = nil
		op.Done(t.ci, nil, false)
	case c.Send:
		h := t.peer
		hop := h.pending
		if ex.race != nil {
			ex.race.release(g, c.Ch)
			ex.race.acquire(h, c.Ch)
			ex.race.release(h, c.Ch)
			ex.race.acquire(g, c.Ch)
		}
		g.pending = nil
		h.pending = nil
		op.Done(t.ci, nil, false)
		ex.cur = h
		hop.Done(t.pi, c.Val, true)
		ex.cur = g
	case len(c.Ch.buf) > 0:
		v := c.Ch.buf[0]
		c.Ch.buf = c.Ch.buf[1:]
		if ex.race != nil {
			ex.race.acquire(g, c.Ch)
		}
		g.pending = nil
		op.Done(t.ci, v, true)
	case c.Ch.closed:
		if ex.race != nil {
			ex.race.acquire(g, c.Ch)
		}
		g.pending = nil
		op.Done(t.ci, nil, false)
	default:
		panic("fire: transition not enabled")
	}
}

// fireInline executes g's pending operation immediately if it is enabled
// without needing a partner (used inside synchronous callbacks).
func (ex *Exec) fireInline(g *G, op *VisOp) bool {
	for _, t := range ex.enabledTransitions() {
		if t.g == g && t.peer == nil {
			ex.fire(t)
			return true
		}
	}
	return false
}

// schedule runs all goroutines to completion / quiescence exploring scheduler choices.
func (ex *Exec) schedule() {
	for {
		// run every goroutine that is not waiting at a visible operation
		progress := true
		for progress {
			progress = false
			for i := 0; i < len(ex.gs); i++ {
				g := ex.gs[i]
				if !g.done && g.pending == nil {
					ex.runG(g)
					progress = true
				}
			}
		}
		ts := ex.enabledTransitions()
		if len(ts) == 0 {
			// quiescent: a goroutine waiting in vt.Settle may continue (lowest id first), then timers fire
			ex.settling = true
			ts = ex.enabledTransitions()
			ex.settling = false
			if len(ts) > 0 {
				ts = ts[:1]
			} else {
				if ex.fireTimer() {
					continue
				}
				return
			}
		}
		// sleep sets: transitions already explored from an equivalent state are not taken again
		var awake []int
		for i, t := range ts {
			if _, asleep := ex.sleep[t.key()]; !asleep {
				awake = append(awake, i)
			}
		}
		if len(awake) == 0 {
			panic(pathEnd{StInfeasible, "sleep-set blocked (redundant interleaving)"})
		}
		var pick int
		var ordered []int
		{
			// preemption bounding: once the budget is used only the last-run goroutine may continue (if it can)
			cand := make([]int, 0, len(awake))
			lastEnabled := false
			for _, t := range ts {
				if ex.lastG != nil && t.involves(ex.lastG) {
					lastEnabled = true
				}
			}
			for _, i := range awake {
				t := ts[i]
				if ex.E.Cfg.MaxPreempt >= 0 && lastEnabled && ex.preempts >= ex.E.Cfg.MaxPreempt && !t.involves(ex.lastG) {
					continue
				}
				cand = append(cand, i)
			}
			if len(cand) == 0 {
				panic(pathEnd{StInfeasible, "sleep-set blocked under preemption bound"})
			}
			// prefer continuing the last goroutine first (DFS order)
			for _, i := range cand {
				if ex.lastG != nil && ts[i].involves(ex.lastG) {
					ordered = append(ordered, i)
				}
			}
			for _, i := range cand {
				if !(ex.lastG != nil && ts[i].involves(ex.lastG)) {
					ordered = append(ordered, i)
				}
			}
			k := 0
			if len(ordered) > 1 {
				ex.res.SchedPoints++
				if ex.res.SchedPoints > ex.E.Cfg.MaxSched {
					panic(pathEnd{StInconclusive, fmt.Sprintf("scheduler decision budget %d exceeded", ex.E.Cfg.MaxSched)})
				}
				k = ex.choose("sched", len(ordered), func(int) *smt.Term { return nil })
			}
			pick = ordered[k]
			if lastEnabled && !ts[pick].involves(ex.lastG) {
				ex.preempts++
			}
			// earlier siblings go to sleep in this branch
			for _, i := range ordered[:k] {
				ex.sleep[ts[i].key()] = ex.footprintOf(ts[i])
			}
		}
		// transitions dependent on the chosen one wake up
		chosen := ex.footprintOf(ts[pick])
		for key, fp := range ex.sleep {
			if !independent(fp, chosen) {
				delete(ex.sleep, key)
			}
		}
		t := ts[pick]
		if ex.traceOn() {
			ex.trace = append(ex.trace, fmt.Sprintf("g%d:%s", t.g.id, t.desc))
		}
		ex.fire(t)
		ex.lastG = t.g
	}
}

func (ex *Exec) traceOn() bool { return true }

// fireTimer cancels the timeout context with the earliest deadline (time only
// advances when nothing else can run).
func (ex *Exec) fireTimer() bool {
	for i, c := range ex.timers {
		if c.done.closed {
			continue
		}
		// only useful if somebody could observe it: always fire, harmless
		ex.timers = append(ex.timers[:i:i], ex.timers[i+1:]...)
		ex.cancelCtx(nil, c, ex.deadlineErr())
		ex.trace = append(ex.trace, "timer-fired")
		return true
	}
	return false
}
