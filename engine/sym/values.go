// Package sym is a forking symbolic interpreter over go/ssa.
package sym

import (
	"fmt"
	"go/constant"
	"go/types"
	"math"

	"golang.org/x/tools/go/ssa"

	"verif/engine/smt"
)

// Value is a symbolic-interpreter value:
//
//	*smt.Term  bool / integer / float / string scalars
//	Ptr        pointer to a location (L == nil: nil pointer)
//	StructV    immutable struct value
//	ArrayV     immutable array value
//	SliceV     slice with concrete extents
//	MapV       map handle
//	IfaceV     interface value
//	FuncV      function / closure / bound method / native
//	ChanV      channel handle
//	TupleV     multi-value result
//	native Go pointers for modelled library objects (*ErrObj, *CtxObj, *PRMsg ...)
type Value interface{}

type Ptr struct{ L *Loc }
type StructV struct{ F []Value }
type ArrayV struct{ E []Value }
type SliceV struct {
	Arr           *Loc // array location; nil for the nil slice
	Off, Len, Cap int
}
type MapV struct{ M *MapObj }
type IfaceV struct {
	T types.Type // dynamic type; nil for nil interface or native object
	V Value
}
type FuncV struct {
	Fn     *ssa.Function
	Env    []Value
	Native *NativeFn
}
type ChanV struct{ C *ChanObj }
type TupleV []Value

// NativeFn is a host-implemented function value (e.g. a context cancel func).
type NativeFn struct {
	Name string
	Call func(ex *Exec, g *G, args []Value) Value
	// Visible marks the call as a scheduling point.
	Visible bool
	Objs    func() []int
}

// TokenV is an opaque message with symbolic identity (see vt.Msg).
type TokenV struct {
	ID  *smt.Term // BV32, never 0
	Gen int
}

// Loc is an addressable location.  Struct and array locations have children.
type Loc struct {
	T      types.Type
	Kids   []*Loc
	V      Value
	ID     int
	Frozen string // non-empty: stores are violations (C07)
	Ghost  map[string]Value
	Parent *Loc
	Owner  int // goroutine id that allocated
}

type MapObj struct {
	Frozen string
	KT, VT types.Type
	Keys   []Value
	Vals   []*Loc
	ID     int
}

func (ex *Exec) newLoc(t types.Type) *Loc {
	ex.nloc++
	l := &Loc{T: t, ID: ex.nloc}
	switch u := t.Underlying().(type) {
	case *types.Struct:
		l.Kids = make([]*Loc, u.NumFields())
		for i := range l.Kids {
			l.Kids[i] = ex.newLoc(u.Field(i).Type())
			l.Kids[i].Parent = l
		}
	case *types.Array:
		n := int(u.Len())
		if n > 4096 {
			ex.unsupported(fmt.Sprintf("array of %d elements", n))
		}
		l.Kids = make([]*Loc, n)
		for i := range l.Kids {
			l.Kids[i] = ex.newLoc(u.Elem())
			l.Kids[i].Parent = l
		}
	default:
		l.V = ex.zero(t)
	}
	return l
}

func (ex *Exec) newArrayLoc(elem types.Type, n int) *Loc {
	return ex.newLoc(types.NewArray(elem, int64(n)))
}

func sortOf(t types.Type) (smt.Sort, bool) {
	b, ok := t.Underlying().(*types.Basic)
	if !ok {
		return smt.Sort{}, false
	}
	switch b.Kind() {
	case types.Bool, types.UntypedBool:
		return smt.Bool, true
	case types.Int, types.Int64, types.Uint, types.Uint64, types.Uintptr, types.UntypedInt:
		return smt.BV(64), true
	case types.Int32, types.Uint32, types.UntypedRune:
		return smt.BV(32), true
	case types.Int16, types.Uint16:
		return smt.BV(16), true
	case types.Int8, types.Uint8:
		return smt.BV(8), true
	case types.Float32:
		return smt.F32, true
	case types.Float64, types.UntypedFloat:
		return smt.F64, true
	case types.String, types.UntypedString:
		return smt.Str, true
	}
	return smt.Sort{}, false
}

func isSigned(t types.Type) bool {
	b, ok := t.Underlying().(*types.Basic)
	if !ok {
		return false
	}
	return b.Info()&types.IsInteger != 0 && b.Info()&types.IsUnsigned == 0
}

func isFloat(t types.Type) bool {
	b, ok := t.Underlying().(*types.Basic)
	return ok && b.Info()&types.IsFloat != 0
}

func isString(t types.Type) bool {
	b, ok := t.Underlying().(*types.Basic)
	return ok && b.Info()&types.IsString != 0
}

func (ex *Exec) zero(t types.Type) Value {
	switch u := t.Underlying().(type) {
	case *types.Basic:
		if u.Kind() == types.UnsafePointer {
			return Ptr{}
		}
		if u.Kind() == types.UntypedNil {
			return nil
		}
		s, ok := sortOf(t)
		if !ok {
			ex.unsupported("zero of basic type " + t.String())
		}
		switch s.K {
		case smt.KBool:
			return ex.B.False()
		case smt.KBV:
			return ex.B.BVC(0, s.W)
		case smt.KStr:
			return ex.B.StrC("")
		case smt.KFP:
			return ex.B.FPC(0, s.W)
		}
	case *types.Pointer:
		return Ptr{}
	case *types.Struct:
		f := make([]Value, u.NumFields())
		for i := range f {
			f[i] = ex.zero(u.Field(i).Type())
		}
		return StructV{f}
	case *types.Array:
		e := make([]Value, int(u.Len()))
		for i := range e {
			e[i] = ex.zero(u.Elem())
		}
		return ArrayV{e}
	case *types.Slice:
		return SliceV{}
	case *types.Map:
		return MapV{}
	case *types.Interface:
		return IfaceV{}
	case *types.Signature:
		return FuncV{}
	case *types.Chan:
		return ChanV{}
	case *types.Tuple:
		tv := make(TupleV, u.Len())
		for i := range tv {
			tv[i] = ex.zero(u.At(i).Type())
		}
		return tv
	case *types.TypeParam:
		ex.unsupported("zero of type parameter")
	}
	ex.unsupported("zero of " + t.String())
	return nil
}

func (ex *Exec) load(l *Loc) Value {
	if l.Kids != nil {
		vs := make([]Value, len(l.Kids))
		for i, k := range l.Kids {
			vs[i] = ex.load(k)
		}
		if _, ok := l.T.Underlying().(*types.Array); ok {
			return ArrayV{vs}
		}
		return StructV{vs}
	}
	if _, ok := l.T.Underlying().(*types.Struct); ok {
		return StructV{}
	}
	if _, ok := l.T.Underlying().(*types.Array); ok {
		return ArrayV{}
	}
	return l.V
}

func (ex *Exec) store(l *Loc, v Value) {
	if l.Frozen != "" && !(l.Kids == nil && sameValue(l.V, v)) {
		ex.frozenStore(l)
	}
	ex.noteAccess(l, true)
	if l.Parent != nil && l.Parent.Ghost != nil {
		delete(l.Parent.Ghost, "ns")
	}
	ex.storeRaw(l, v)
}

func (ex *Exec) storeRaw(l *Loc, v Value) {
	if l.Kids != nil || isAggregate(l.T) {
		switch a := v.(type) {
		case StructV:
			if len(a.F) != len(l.Kids) {
				panic(fmt.Sprintf("store: struct arity mismatch %d vs %d for %v", len(a.F), len(l.Kids), l.T))
			}
			for i, k := range l.Kids {
				ex.storeRaw(k, a.F[i])
			}
		case ArrayV:
			for i, k := range l.Kids {
				ex.storeRaw(k, a.E[i])
			}
		default:
			// native value stored into a struct-typed slot (e.g. protoreflect.Value, time.Time)
			l.Kids = nil
			l.V = v
		}
		return
	}
	l.V = v
}

func isAggregate(t types.Type) bool {
	switch t.Underlying().(type) {
	case *types.Struct, *types.Array:
		return true
	}
	return false
}

// constant conversion
func (ex *Exec) constVal(c *ssa.Const) Value {
	t := c.Type()
	if c.Value == nil {
		return ex.zero(t)
	}
	if tp, ok := t.(*types.TypeParam); ok {
		_ = tp
		ex.unsupported("constant of type parameter")
	}
	b, ok := t.Underlying().(*types.Basic)
	if !ok {
		ex.unsupported("constant of type " + t.String())
	}
	switch {
	case b.Info()&types.IsBoolean != 0:
		return ex.B.BoolC(constant.BoolVal(c.Value))
	case b.Info()&types.IsString != 0:
		return ex.B.StrC(constant.StringVal(c.Value))
	case b.Info()&types.IsInteger != 0:
		s, _ := sortOf(t)
		if isSigned(t) || b.Kind() == types.UntypedInt || b.Kind() == types.UntypedRune {
			i, exact := constant.Int64Val(constant.ToInt(c.Value))
			if !exact {
				u, _ := constant.Uint64Val(constant.ToInt(c.Value))
				return ex.B.BVC(u, s.W)
			}
			return ex.B.BVC(uint64(i), s.W)
		}
		u, _ := constant.Uint64Val(constant.ToInt(c.Value))
		return ex.B.BVC(u, s.W)
	case b.Info()&types.IsFloat != 0:
		f, _ := constant.Float64Val(c.Value)
		if b.Kind() == types.Float32 {
			return ex.B.F32C(float32(f))
		}
		return ex.B.F64C(f)
	}
	ex.unsupported("constant kind " + t.String())
	return nil
}

func (ex *Exec) intC(i int) *smt.Term     { return ex.B.BVC(uint64(int64(i)), 64) }
func (ex *Exec) boolC(b bool) *smt.Term   { return ex.B.BoolC(b) }
func (ex *Exec) strC(s string) *smt.Term  { return ex.B.StrC(s) }
func (ex *Exec) f64C(f float64) *smt.Term { return ex.B.F64C(f) }

func termOf(v Value) *smt.Term {
	t, ok := v.(*smt.Term)
	if !ok {
		panic(fmt.Sprintf("expected scalar term, got %T", v))
	}
	return t
}

// concInt returns the concrete int value of a BV term, or ok=false.
func concInt(v Value) (int, bool) {
	t, ok := v.(*smt.Term)
	if !ok || !t.IsConst() || t.Sort.K != smt.KBV {
		return 0, false
	}
	w := t.Sort.W
	if w >= 64 {
		return int(int64(t.U)), true
	}
	sh := uint(64 - w)
	return int(int64(t.U<<sh) >> sh), true
}

func concStr(v Value) (string, bool) {
	t, ok := v.(*smt.Term)
	if !ok || !t.IsConst() {
		return "", false
	}
	if isOrd(t) {
		return ordString(t.U), true
	}
	if t.Sort.K != smt.KStr {
		return "", false
	}
	return t.S, true
}

// Ordinal strings: a symbolic string that is only ever compared (==, <) is carried as a 61-bit
// unsigned ordinal; 0 is "" and k > 0 is the 16-digit lower-case hex rendering of k, so that the
// unsigned order on ordinals is the byte-wise order on the strings.  The width 61 is used for nothing else.
const OrdW = 61

// intfloat: see smt.IntFW
func isIntF(t *smt.Term) bool { return t.Sort.K == smt.KBV && t.Sort.W == smt.IntFW }

func (ex *Exec) intFPair(x, y *smt.Term) (*smt.Term, *smt.Term) {
	conv := func(t *smt.Term) *smt.Term {
		if isIntF(t) {
			return t
		}
		if t.Sort.K == smt.KFP && t.IsConst() {
			var f float64
			if t.Sort.W == 32 {
				f = float64(math.Float32frombits(uint32(t.U)))
			} else {
				f = math.Float64frombits(t.U)
			}
			if f == math.Trunc(f) && math.Abs(f) < 1<<40 {
				return ex.B.BVC(uint64(int64(f)), smt.IntFW)
			}
		}
		ex.unsupported("an intfloat value meets a float that is not a small integer constant")
		return nil
	}
	return conv(x), conv(y)
}

func isOrd(t *smt.Term) bool { return t.Sort.K == smt.KBV && t.Sort.W == OrdW }

func ordString(k uint64) string {
	if k == 0 {
		return ""
	}
	return fmt.Sprintf("%016x", k)
}

func parseOrd(s string) (uint64, bool) {
	if s == "" {
		return 0, true
	}
	if len(s) != 16 {
		return 0, false
	}
	var k uint64
	for i := 0; i < 16; i++ {
		c := s[i]
		switch {
		case c >= '0' && c <= '9':
			k = k<<4 | uint64(c-'0')
		case c >= 'a' && c <= 'f':
			k = k<<4 | uint64(c-'a'+10)
		default:
			return 0, false
		}
	}
	if k == 0 || k >= 1<<OrdW {
		return 0, false
	}
	return k, true
}

// ordPair brings two string terms to a common sort when one of them is an ordinal.
func (ex *Exec) ordPair(x, y *smt.Term) (*smt.Term, *smt.Term) {
	if isOrd(x) == isOrd(y) {
		return x, y
	}
	conv := func(t *smt.Term) *smt.Term {
		if isOrd(t) {
			return t
		}
		if t.Sort.K == smt.KStr && t.IsConst() {
			if k, ok := parseOrd(t.S); ok {
				return ex.B.BVC(k, OrdW)
			}
		}
		ex.unsupported("comparison of an ordinal string with a string that is not an ordinal")
		return nil
	}
	return conv(x), conv(y)
}

func concBool(v Value) (bool, bool) {
	t, ok := v.(*smt.Term)
	if !ok || !t.IsConst() || t.Sort.K != smt.KBool {
		return false, false
	}
	return t.U == 1, true
}

var _ = math.MaxInt64

// describe renders a value for diagnostics / observations.
func (ex *Exec) describe(v Value) string {
	switch x := v.(type) {
	case nil:
		return "nil"
	case *smt.Term:
		if x.IsConst() {
			switch x.Sort.K {
			case smt.KBool:
				return fmt.Sprint(x.U == 1)
			case smt.KStr:
				return fmt.Sprintf("%q", x.S)
			case smt.KBV:
				return fmt.Sprint(x.U)
			}
		}
		return smt.Print(x)
	case Ptr:
		if x.L == nil {
			return "nil"
		}
		return fmt.Sprintf("&loc%d", x.L.ID)
	case IfaceV:
		if x.T == nil && x.V == nil {
			return "nil"
		}
		return "iface(" + ex.describe(x.V) + ")"
	case SliceV:
		return fmt.Sprintf("slice[len=%d cap=%d]", x.Len, x.Cap)
	}
	return fmt.Sprintf("%T", v)
}

// sameValue: syntactically identical leaf values (a store of the value already held is not a mutation).
func sameValue(a, b Value) bool {
	switch x := a.(type) {
	case *smt.Term:
		y, ok := b.(*smt.Term)
		return ok && x == y
	case Ptr:
		y, ok := b.(Ptr)
		return ok && x.L == y.L
	case SliceV:
		y, ok := b.(SliceV)
		return ok && x == y
	case MapV:
		y, ok := b.(MapV)
		return ok && x.M == y.M
	}
	return false
}
