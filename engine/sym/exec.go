package sym

import (
	"fmt"
	"go/types"
	"sort"
	"strings"
	"sync"

	"golang.org/x/tools/go/ssa"

	"verif/engine/smt"
)

// ---- engine-wide (shared, read-mostly) state ----

type Config struct {
	MaxSteps      int // instructions per path
	MaxBlockVisit int // visits of one block in one frame activation (unwind bound)
	MaxPreempt    int // preemption bound for the scheduler (-1: unbounded)
	MaxSched      int // scheduler decisions per path
	MaxPaths      int
	SolverName    string
	TimeoutMs     int
	Workers       int
	MapOrders     bool // explore both iteration orders of 2-entry maps
	RaceDetect    bool
}

type Engine struct {
	Prog    *ssa.Program
	Cfg     Config
	ModPath string // module path of the code under test
	VTPath  string // import path of package vt

	mu      sync.Mutex
	fnInfos map[*ssa.Function]*fnInfo
	built   map[*ssa.Package]bool
	Sizes   types.Sizes
	pbInfos map[string]*pbMsgInfo
}

type fnInfo struct {
	nums map[ssa.Value]int
	n    int
}

func (e *Engine) info(fn *ssa.Function) *fnInfo {
	e.mu.Lock()
	defer e.mu.Unlock()
	if fi, ok := e.fnInfos[fn]; ok {
		return fi
	}
	e.ensureBuiltLocked(fn)
	fi := &fnInfo{nums: map[ssa.Value]int{}}
	add := func(v ssa.Value) {
		fi.nums[v] = fi.n
		fi.n++
	}
	for _, p := range fn.Params {
		add(p)
	}
	for _, p := range fn.FreeVars {
		add(p)
	}
	for _, b := range fn.Blocks {
		for _, in := range b.Instrs {
			if v, ok := in.(ssa.Value); ok {
				add(v)
			}
		}
	}
	e.fnInfos[fn] = fi
	return fi
}

func (e *Engine) ensureBuiltLocked(fn *ssa.Function) {
	p := fn.Pkg
	if p == nil && fn.Origin() != nil {
		p = fn.Origin().Pkg
	}
	if p == nil {
		if fn.Parent() != nil {
			e.ensureBuiltLocked(fn.Parent())
		}
		return
	}
	if !e.built[p] {
		p.Build()
		e.built[p] = true
	}
}

func (e *Engine) ensureBuilt(fn *ssa.Function) {
	e.mu.Lock()
	defer e.mu.Unlock()
	e.ensureBuiltLocked(fn)
}

// ---- per-path state ----

// PathSpec identifies a path: the picks at every decision point, plus the
// candidate values used by concretize at the given decision indices.
type PathSpec struct {
	Picks []int
	Vals  map[int]uint64
}

type Status int

const (
	StDone Status = iota
	StInfeasible
	StInconclusive
	StPanic
)

type Violation struct {
	Label  string
	Detail string
	KF     string // known-finding id whose characteristic condition holds for this model
	Model  map[string]any
	Trace  []string
}

type Observation struct {
	Key  string
	Term *smt.Term
	Str  string // for non-scalar observations (concrete description)
}

type PathResult struct {
	Decisions   []int
	Status      Status
	Reason      string
	Violations  []Violation
	KFSeen      map[string]bool
	Reached     []string
	Obs         []Observation
	Model       map[string]any // model of the final path condition (for validation)
	ObsVals     map[string]any
	Steps       int
	Forks       int
	SchedPoints int
	UnknownBr   int
	Funcs       map[string]bool
	Stubs       map[string]bool
	Asserts     int
	Discharged  int
	PC          string
}

type Input struct {
	Name string
	Kind string // int64,int32,int,bool,string,float64,float32,uint8,choose,time,msg,sched
	Term *smt.Term
}

type Exec struct {
	E *Engine
	B *smt.Builder
	S *smt.Solver

	prefix     []int
	pos        int
	decisions  []int
	pending    []PathSpec
	replayVals map[int]uint64
	concVals   map[int]uint64
	pcTerms    []*smt.Term

	gs      []*G
	cur     *G
	globals map[*ssa.Global]*Loc
	nloc    int
	nobj    int
	steps   int

	inputs   []Input
	varCount map[string]int
	res      *PathResult

	mutexes     map[*Loc]*mutexState
	wgs         map[*Loc]*wgState
	onces       map[*Loc]*onceState
	timers      []*CtxObj
	tokGen      int
	allowLeak   bool
	preempts    int
	lastG       *G
	ufApps      map[string][]ufApp
	frozenN     int
	nativeFn    map[string]*ssa.Function
	race        *raceState
	initDone    map[*ssa.Package]bool
	trace       []string
	pbCache     map[*Loc]*PRMsg
	clockLast   *smt.Term
	tierVals    map[string]int
	sleep       map[string]footprint
	fdCache     map[*pbFieldInfo]*PRField
	freshChoice bool
	tokenTable  []tokenEntry
	freezing    string
	settling    bool
	unwind      int
	maxSteps    int
}

type pathEnd struct {
	st     Status
	reason string
}

func (ex *Exec) unsupported(what string) {
	panic(pathEnd{StInconclusive, "unsupported: " + what + ex.where()})
}

func (ex *Exec) where() string {
	if ex.cur == nil || len(ex.cur.frames) == 0 {
		return ""
	}
	var parts []string
	for i := len(ex.cur.frames) - 1; i >= 0 && len(parts) < 6; i-- {
		fr := ex.cur.frames[i]
		pos := ""
		if fr.block != nil && fr.ip < len(fr.block.Instrs) {
			p := ex.E.Prog.Fset.Position(fr.block.Instrs[fr.ip].Pos())
			if p.IsValid() {
				pos = fmt.Sprintf(":%d", p.Line)
			}
		}
		parts = append(parts, fr.fn.String()+pos)
	}
	return " at " + strings.Join(parts, " < ")
}

// ---- goroutines and frames ----

type deferred struct {
	fn   Value // FuncV, or nil with builtin / intrinsic
	call *ssa.CallCommon
	args []Value
}

type Frame struct {
	fn        *ssa.Function
	info      *fnInfo
	env       []Value
	block     *ssa.BasicBlock
	prev      *ssa.BasicBlock
	ip        int
	defers    []*deferred
	onReturn  func(v Value)
	catch     bool // vt.Try frame: stops panics
	visits    map[*ssa.BasicBlock]int
	isDefer   bool // frame runs a deferred call
	ps        *panicState
	deferOf   *Frame
	recovered bool
}

type panicState struct {
	val   Value
	msg   string
	fatal bool
}

type G struct {
	id      int
	frames  []*Frame
	done    bool
	pending *VisOp
	panic   *panicState
	name    string
	vc      []int // vector clock (race detection)
	isMain  bool
	nested  int
}

func (g *G) top() *Frame {
	if len(g.frames) == 0 {
		return nil
	}
	return g.frames[len(g.frames)-1]
}

func (ex *Exec) newG(name string) *G {
	g := &G{id: len(ex.gs), name: name}
	ex.gs = append(ex.gs, g)
	if ex.race != nil {
		ex.race.newG(ex, g)
	}
	return g
}

func (ex *Exec) pushFrame(g *G, fn *ssa.Function, args []Value, env []Value, onReturn func(Value)) *Frame {
	if fn.Blocks == nil {
		ex.E.ensureBuilt(fn)
		if fn.Blocks == nil {
			ex.unsupported("function without body: " + fn.String())
		}
	}
	fi := ex.E.info(fn)
	fr := &Frame{fn: fn, info: fi, env: make([]Value, fi.n), block: fn.Blocks[0], onReturn: onReturn}
	if len(args) != len(fn.Params) {
		panic(fmt.Sprintf("arity mismatch calling %s: %d args for %d params", fn, len(args), len(fn.Params)))
	}
	for i, p := range fn.Params {
		fr.env[fi.nums[p]] = args[i]
	}
	for i, fv := range fn.FreeVars {
		fr.env[fi.nums[fv]] = env[i]
	}
	if len(g.frames) > 400 {
		ex.unsupported("call depth > 400")
	}
	g.frames = append(g.frames, fr)
	ex.res.Funcs[fn.String()] = true
	return fr
}

func (ex *Exec) get(fr *Frame, v ssa.Value) Value {
	switch x := v.(type) {
	case *ssa.Const:
		return ex.constVal(x)
	case *ssa.Global:
		return Ptr{ex.global(x)}
	case *ssa.Function:
		return FuncV{Fn: x}
	case *ssa.Builtin:
		ex.unsupported("builtin as value " + x.Name())
	}
	i, ok := fr.info.nums[v]
	if !ok {
		panic(fmt.Sprintf("no slot for %s (%T) in %s", v.Name(), v, fr.fn))
	}
	return fr.env[i]
}

func (ex *Exec) set(fr *Frame, v ssa.Value, val Value) {
	fr.env[fr.info.nums[v]] = val
}

func (ex *Exec) global(gl *ssa.Global) *Loc {
	if l, ok := ex.globals[gl]; ok {
		return l
	}
	t := gl.Type().(*types.Pointer).Elem()
	l := ex.newLoc(t)
	ex.globals[gl] = l
	ex.initGlobal(gl, l)
	return l
}

// ---- decisions ----

// choose picks one of n alternatives. cond(i) is the constraint of alternative
// i (nil means true).  In replay mode the recorded pick is taken.
func (ex *Exec) choose(kind string, n int, cond func(i int) *smt.Term) int {
	if n == 1 {
		c := cond(0)
		if c != nil {
			ex.assume(c)
		}
		return 0
	}
	if ex.pos < len(ex.prefix) {
		pick := ex.prefix[ex.pos]
		ex.pos++
		ex.decisions = append(ex.decisions, pick)
		if pick >= n {
			panic(pathEnd{StInconclusive, fmt.Sprintf("replay divergence: pick %d of %d at %s", pick, n, kind)})
		}
		if c := cond(pick); c != nil && !c.IsTrue() {
			ex.S.Assert(c)
			ex.pcTerms = append(ex.pcTerms, c)
		}
		return pick
	}
	ex.res.Forks++
	var feas []int
	for i := 0; i < n; i++ {
		c := cond(i)
		if c == nil || c.IsTrue() {
			feas = append(feas, i)
			continue
		}
		if c.IsFalse() {
			continue
		}
		if ex.freshChoice {
			// the alternatives constrain a fresh variable only: each is feasible whenever the path condition is
			feas = append(feas, i)
			continue
		}
		// the last alternative of a 2-way branch is feasible if the first is not (pc is sat)
		if n == 2 && i == 1 && len(feas) == 0 && isNegation(cond(0), c) {
			feas = append(feas, i)
			continue
		}
		switch ex.S.CheckWith(c) {
		case smt.Sat:
			feas = append(feas, i)
		case smt.Unknown:
			ex.res.UnknownBr++
			feas = append(feas, i)
		}
	}
	if len(feas) == 0 {
		panic(pathEnd{StInfeasible, "no feasible alternative at " + kind})
	}
	pick := feas[0]
	for _, alt := range feas[1:] {
		p := make([]int, len(ex.decisions)+1)
		copy(p, ex.decisions)
		p[len(ex.decisions)] = alt
		vals := map[int]uint64{}
		for k, v := range ex.concVals {
			vals[k] = v
		}
		ex.pending = append(ex.pending, PathSpec{Picks: p, Vals: vals})
	}
	ex.decisions = append(ex.decisions, pick)
	if c := cond(pick); c != nil && !c.IsTrue() {
		ex.S.Assert(c)
		ex.pcTerms = append(ex.pcTerms, c)
	}
	return pick
}

func isNegation(a, b *smt.Term) bool {
	if a == nil || b == nil {
		return false
	}
	return (a.Op == smt.ONot && a.Args[0] == b) || (b.Op == smt.ONot && b.Args[0] == a)
}

// branch forks on a boolean term.
func (ex *Exec) branch(c *smt.Term) bool {
	if c.IsConst() {
		return c.U == 1
	}
	nc := ex.B.Not(c)
	pick := ex.choose("branch", 2, func(i int) *smt.Term {
		if i == 0 {
			return c
		}
		return nc
	})
	return pick == 0
}

// assume adds c to the path condition; the path ends if it becomes infeasible.
func (ex *Exec) assume(c *smt.Term) {
	if c.IsTrue() {
		return
	}
	if c.IsFalse() {
		panic(pathEnd{StInfeasible, "assume false"})
	}
	ex.S.Assert(c)
	ex.pcTerms = append(ex.pcTerms, c)
	if ex.pos >= len(ex.prefix) {
		switch ex.S.Check() {
		case smt.Unsat:
			panic(pathEnd{StInfeasible, "assumption infeasible"})
		case smt.Unknown:
			ex.res.UnknownBr++
		}
	}
}

// assumeNoCheck adds a constraint that is known to keep the path feasible (it only restricts a fresh variable
// to a non-empty range), so no solver call is needed.
func (ex *Exec) assumeNoCheck(c *smt.Term) {
	if c.IsTrue() {
		return
	}
	ex.S.Assert(c)
	ex.pcTerms = append(ex.pcTerms, c)
}

// concretize forks over the feasible values of an integer term (at most max).
func (ex *Exec) concretize(t *smt.Term, what string, max int) int {
	if v, ok := concInt(t); ok {
		return v
	}
	for k := 0; k < max; k++ {
		var cand *smt.Term
		if ex.pos < len(ex.prefix) {
			// during replay candidate values are stored in the replay log
			cv, ok := ex.replayVals[len(ex.decisions)]
			if !ok {
				panic(pathEnd{StInconclusive, "replay divergence in concretize"})
			}
			cand = ex.B.BVC(cv, t.Sort.W)
			ex.concVals[len(ex.decisions)] = cv
		} else {
			r := ex.S.Check()
			if r != smt.Sat {
				panic(pathEnd{StInconclusive, "concretize: solver said " + r.String()})
			}
			vals, err := ex.S.Values([]*smt.Term{t})
			if err != nil {
				panic(pathEnd{StInconclusive, "concretize: " + err.Error()})
			}
			cand = ex.B.BVC(vals[0].U, t.Sort.W)
			ex.concVals[len(ex.decisions)] = cand.U
		}
		if ex.branch(ex.B.Eq(t, cand)) {
			v, _ := concInt(cand)
			return v
		}
	}
	ex.unsupported(fmt.Sprintf("more than %d feasible values for %s", max, what))
	return 0
}

// ---- inputs ----

func (ex *Exec) uniq(name string) string {
	n := ex.varCount[name]
	ex.varCount[name] = n + 1
	if n == 0 {
		return name
	}
	return fmt.Sprintf("%s#%d", name, n)
}

func (ex *Exec) input(name, kind string, s smt.Sort) *smt.Term {
	u := ex.uniq(name)
	t := ex.B.Var(u, s)
	ex.inputs = append(ex.inputs, Input{Name: u, Kind: kind, Term: t})
	return t
}

// model extracts input values after a Sat answer.
func (ex *Exec) model() map[string]any {
	ts := make([]*smt.Term, len(ex.inputs))
	for i, in := range ex.inputs {
		ts[i] = in.Term
	}
	vals, err := ex.S.Values(ts)
	m := map[string]any{}
	if err != nil {
		m["__error"] = err.Error()
		return m
	}
	for i, in := range ex.inputs {
		m[in.Name] = modelValue(in.Kind, vals[i])
	}
	return m
}

func modelValue(kind string, v smt.ModelVal) any {
	switch v.Sort.K {
	case smt.KBool:
		return v.U == 1
	case smt.KStr:
		return v.S
	case smt.KFP:
		return map[string]any{"bits": fmt.Sprintf("%d", v.U)}
	}
	w := v.Sort.W
	switch kind {
	case "uint8", "uint32", "uint64", "uint", "strord":
		return fmt.Sprintf("%d", v.U)
	}
	if w < 64 {
		sh := uint(64 - w)
		return fmt.Sprintf("%d", int64(v.U<<sh)>>sh)
	}
	return fmt.Sprintf("%d", int64(v.U))
}

func sortedKeys(m map[string]bool) []string {
	var ks []string
	for k := range m {
		ks = append(ks, k)
	}
	sort.Strings(ks)
	return ks
}
