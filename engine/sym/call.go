package sym

import (
	"fmt"
	"go/token"
	"go/types"
	"strings"

	"golang.org/x/tools/go/ssa"

	"verif/engine/smt"
)

func (ex *Exec) doCall(g *G, fr *Frame, x *ssa.Call) {
	var fnv Value
	if x.Call.IsInvoke() {
		fnv = ex.get(fr, x.Call.Value)
	} else if _, isB := x.Call.Value.(*ssa.Builtin); !isB {
		fnv = ex.get(fr, x.Call.Value)
	}
	args := make([]Value, len(x.Call.Args))
	for i, a := range x.Call.Args {
		args[i] = ex.get(fr, a)
	}
	ex.callCommon(g, fr, &x.Call, fnv, args, func(v Value) {
		ex.set(fr, x, v)
		fr.ip++
	}, false, nil)
}

// callCommon performs a call described by cc with already evaluated callee and
// args; done receives the result when the call has completed.
func (ex *Exec) callCommon(g *G, fr *Frame, cc *ssa.CallCommon, fnv Value, args []Value, done func(Value), isDefer bool, ps *panicState) {
	if cc.IsInvoke() {
		recv, _ := fnv.(IfaceV)
		if recv.T == nil && recv.V == nil {
			ex.rtPanic(g, "invalid memory address or nil pointer dereference (method "+cc.Method.Name()+" on nil interface)")
			return
		}
		if recv.T == nil || isNativeObj(recv.V) {
			ex.nativeMethod(g, recv.V, cc.Method.Name(), args, done)
			return
		}
		if _, isTok := recv.V.(TokenV); isTok {
			ex.unsupported("method " + cc.Method.Name() + " on opaque token message")
		}
		fn := ex.E.Prog.LookupMethod(recv.T, cc.Method.Pkg(), cc.Method.Name())
		if fn == nil {
			ex.unsupported(fmt.Sprintf("method %s not found on %s", cc.Method.Name(), recv.T))
		}
		ex.callFunc(g, fn, append([]Value{recv.V}, args...), nil, done, isDefer, ps, fr)
		return
	}
	if b, ok := cc.Value.(*ssa.Builtin); ok {
		ex.builtin(g, fr, b, cc, args, done, isDefer)
		return
	}
	f, ok := fnv.(FuncV)
	if !ok {
		ex.unsupported(fmt.Sprintf("call of %T", fnv))
	}
	if f.Native != nil {
		if f.Native.Visible {
			op := &VisOp{Kind: "native:" + f.Native.Name, Simple: true,
				Fire: func() { done(f.Native.Call(ex, g, args)) }}
			if f.Native.Objs != nil {
				op.ObjIDs = f.Native.Objs()
			}
			g.pending = op
			return
		}
		done(f.Native.Call(ex, g, args))
		return
	}
	if f.Fn == nil {
		ex.rtPanic(g, "invalid memory address or nil pointer dereference (call of nil func)")
		return
	}
	ex.callFunc(g, f.Fn, args, f.Env, done, isDefer, ps, fr)
}

func (ex *Exec) callFunc(g *G, fn *ssa.Function, args []Value, env []Value, done func(Value), isDefer bool, ps *panicState, caller *Frame) {
	name := fn.String()
	if fn.Origin() != nil {
		name = fn.Origin().String()
	}
	if h, ok := intrinsics[name]; ok {
		ex.res.Stubs[name] = true
		h(ex, g, fn, args, done)
		return
	}
	if fn.Pkg != nil && fn.Pkg.Pkg.Path() == ex.E.VTPath {
		ex.vtCall(g, fn, args, done)
		return
	}
	if h := ex.patternIntrinsic(fn, name); h != nil {
		ex.res.Stubs[name] = true
		h(ex, g, fn, args, done)
		return
	}
	if fn.Name() == "init" && fn.Synthetic != "" && (fn.Pkg == nil || !strings.HasPrefix(fn.Pkg.Pkg.Path(), ex.E.ModPath)) {
		done(nil) // initialisers of dependency packages are not executed
		return
	}
	if strings.HasPrefix(fn.Name(), "init#") && ex.inPBFile(fn.Pos()) {
		done(nil) // initialisers of protoc-gen-go files only build descriptors, which the model replaces
		return
	}
	if !ex.interpretable(fn) {
		ex.unsupported("call into un-modelled function " + name)
	}
	nf := ex.pushFrame(g, fn, args, env, done)
	nf.isDefer = isDefer
	nf.ps = ps
	nf.deferOf = caller
}

// interpretable says whether fn's SSA body may be executed by the engine.
func (ex *Exec) interpretable(fn *ssa.Function) bool {
	p := fn.Pkg
	if p == nil && fn.Origin() != nil {
		p = fn.Origin().Pkg
	}
	if p == nil {
		if fn.Parent() != nil {
			return ex.interpretable(fn.Parent())
		}
		// wrappers / bound method thunks
		if fn.Synthetic != "" {
			return true
		}
		return false
	}
	path := p.Pkg.Path()
	if strings.HasPrefix(path, ex.E.ModPath) {
		return true
	}
	if path == "math/rand" || path == "math/rand/v2" || path == "math/big" {
		return false
	}
	for _, pre := range allowPkgs {
		if path == pre || strings.HasPrefix(path, pre+"/") {
			return true
		}
	}
	return false
}

var allowPkgs = []string{
	"github.com/smart-core-os/sc-api/go",
	"github.com/mennanov/fmutils",
	"container/list",
	"sort",
	"strings",
	"strconv",
	"unicode",
	"unicode/utf8",
	"bytes",
	"math",
	"math/bits",
	"slices",
	"maps",
	"cmp",
	"golang.org/x/exp",
	"google.golang.org/protobuf/types/known",
	"google.golang.org/grpc/codes",
	"errors",
	"internal/bytealg",
	"internal/stringslite",
	"unsafe",
}

func (ex *Exec) builtin(g *G, fr *Frame, b *ssa.Builtin, cc *ssa.CallCommon, args []Value, done func(Value), isDefer bool) {
	B := ex.B
	switch b.Name() {
	case "len":
		switch x := args[0].(type) {
		case *smt.Term:
			if isOrd(x) {
				done(B.Ite(B.Eq(x, B.BVC(0, OrdW)), ex.intC(0), ex.intC(16)))
			} else {
				done(B.StrLen(x))
			}
		case SliceV:
			done(ex.intC(x.Len))
		case MapV:
			if x.M == nil {
				done(ex.intC(0))
			} else {
				done(ex.intC(len(x.M.Keys)))
			}
		case ChanV:
			if x.C == nil {
				done(ex.intC(0))
			} else {
				done(ex.intC(len(x.C.buf)))
			}
		case ArrayV:
			done(ex.intC(len(x.E)))
		case Ptr:
			done(ex.intC(len(x.L.Kids)))
		default:
			ex.unsupported(fmt.Sprintf("len of %T", x))
		}
	case "cap":
		switch x := args[0].(type) {
		case SliceV:
			done(ex.intC(x.Cap))
		case ChanV:
			if x.C == nil {
				done(ex.intC(0))
			} else {
				done(ex.intC(x.C.cap))
			}
		default:
			ex.unsupported(fmt.Sprintf("cap of %T", x))
		}
	case "append":
		s := args[0].(SliceV)
		et := cc.Args[0].Type().Underlying().(*types.Slice).Elem()
		var add []Value
		switch y := args[1].(type) {
		case SliceV:
			for i := 0; i < y.Len; i++ {
				add = append(add, ex.load(y.Arr.Kids[y.Off+i]))
			}
		case *smt.Term: // append([]byte, string...)
			str, ok := concStr(y)
			if !ok {
				ex.unsupported("append symbolic string to bytes")
			}
			for i := 0; i < len(str); i++ {
				add = append(add, B.BVC(uint64(str[i]), 8))
			}
		default:
			ex.unsupported(fmt.Sprintf("append of %T", y))
		}
		done(ex.appendVals(g, s, et, add))
	case "copy":
		dst := args[0].(SliceV)
		n := 0
		switch src := args[1].(type) {
		case SliceV:
			n = dst.Len
			if src.Len < n {
				n = src.Len
			}
			tmp := make([]Value, n)
			for i := 0; i < n; i++ {
				tmp[i] = ex.load(src.Arr.Kids[src.Off+i])
			}
			for i := 0; i < n; i++ {
				ex.store(dst.Arr.Kids[dst.Off+i], tmp[i])
			}
		case *smt.Term:
			str, ok := concStr(src)
			if !ok {
				ex.unsupported("copy from symbolic string")
			}
			n = dst.Len
			if len(str) < n {
				n = len(str)
			}
			for i := 0; i < n; i++ {
				ex.store(dst.Arr.Kids[dst.Off+i], B.BVC(uint64(str[i]), 8))
			}
		}
		done(ex.intC(n))
	case "clear":
		sl, ok := args[0].(SliceV)
		if !ok {
			ex.unsupported("clear of a map")
		}
		for i := 0; i < sl.Len; i++ {
			k := sl.Arr.Kids[sl.Off+i]
			ex.store(k, ex.zero(k.T))
		}
		done(nil)
	case "delete":
		m := args[0].(MapV)
		if m.M != nil {
			ex.mapDelete(m.M, args[1])
		}
		done(nil)
	case "close":
		ch := args[0].(ChanV)
		g.pending = &VisOp{Kind: "close", Simple: true, Obj: ch.C, Fire: func() {
			if ch.C == nil {
				ex.rtPanic(g, "close of nil channel")
				return
			}
			if ch.C.closed {
				ex.rtPanic(g, "close of closed channel")
				return
			}
			ch.C.closed = true
			if ex.race != nil {
				ex.race.release(g, ch.C)
			}
			done(nil)
		}}
	case "panic":
		ex.goPanic(g, args[0], ex.panicMsg(args[0]))
	case "recover":
		// valid only when called directly from a deferred function during panicking
		if fr != nil && fr.isDefer && fr.ps != nil && fr.deferOf != nil {
			v := fr.ps.val
			fr.ps = nil
			fr.deferOf.recovered = true
			done(v)
		} else {
			done(IfaceV{})
		}
	case "print", "println":
		done(nil)
	case "min", "max":
		acc := termOf(args[0])
		t := cc.Args[0].Type()
		for _, a := range args[1:] {
			y := termOf(a)
			var lt *smt.Term
			switch {
			case acc.Sort.K == smt.KFP:
				lt = B.FCmp(smt.OFLt, y, acc)
			case acc.Sort.K == smt.KStr:
				lt = B.StrLt(y, acc)
			case isSigned(t):
				lt = B.Slt(y, acc)
			default:
				lt = B.Ult(y, acc)
			}
			if b.Name() == "max" {
				acc = B.Ite(lt, acc, y)
			} else {
				acc = B.Ite(lt, y, acc)
			}
		}
		done(acc)
	case "ssa:wrapnilchk":
		p, _ := args[0].(Ptr)
		if p.L == nil {
			ex.rtPanic(g, "value method called using nil pointer")
			return
		}
		done(args[0])
	default:
		ex.unsupported("builtin " + b.Name())
	}
}

// sizeClasses are Go's small-object size classes (bytes), used to reproduce append's capacity growth.
var sizeClasses = []int{0, 8, 16, 24, 32, 48, 64, 80, 96, 112, 128, 144, 160, 176, 192, 208, 224, 240, 256, 288, 320, 352, 384, 416, 448, 480, 512, 576, 640, 704, 768, 896, 1024, 1152, 1280, 1408, 1536, 1792, 2048}

func roundupsize(n int) int {
	for _, c := range sizeClasses {
		if c >= n {
			return c
		}
	}
	return n
}

func (ex *Exec) appendVals(g *G, s SliceV, et types.Type, add []Value) Value {
	if len(add) == 0 {
		return s
	}
	need := s.Len + len(add)
	if s.Arr != nil && need <= s.Cap {
		for i, v := range add {
			ex.store(s.Arr.Kids[s.Off+s.Len+i], v)
		}
		return SliceV{Arr: s.Arr, Off: s.Off, Len: need, Cap: s.Cap}
	}
	// growslice
	newcap := s.Cap
	doublecap := newcap + newcap
	if need > doublecap {
		newcap = need
	} else if s.Cap < 256 {
		newcap = doublecap
	} else {
		for newcap < need {
			newcap += (newcap + 3*256) / 4
		}
	}
	esz := int(ex.E.Sizes.Sizeof(et))
	if esz > 0 {
		mem := roundupsize(newcap * esz)
		newcap = mem / esz
	}
	arr := ex.newArrayLoc(et, newcap)
	arr.Owner = g.id
	for i := 0; i < s.Len; i++ {
		ex.storeRaw(arr.Kids[i], ex.load(s.Arr.Kids[s.Off+i]))
	}
	for i, v := range add {
		ex.storeRaw(arr.Kids[s.Len+i], v)
	}
	return SliceV{Arr: arr, Off: 0, Len: need, Cap: newcap}
}

// callSync runs fn(args) to completion on goroutine g and returns its result.
// The callee must not block.
func (ex *Exec) callSync(g *G, fnv Value, args []Value) Value {
	f := fnv.(FuncV)
	if f.Native != nil {
		return f.Native.Call(ex, g, args)
	}
	if f.Fn == nil {
		ex.unsupported("callSync of nil func")
	}
	var res Value
	finished := false
	depth := len(g.frames)
	ex.callFunc(g, f.Fn, args, f.Env, func(v Value) { res = v; finished = true }, false, nil, g.top())
	g.nested++
	for !finished {
		if g.panic != nil {
			if len(g.frames) <= depth {
				break // propagate to the host caller
			}
			ex.unwindStep(g)
			continue
		}
		if g.pending != nil {
			// a visible operation inside a synchronous callback: execute it if it is enabled now
			op := g.pending
			if !ex.fireInline(g, op) {
				ex.unsupported("blocking operation inside synchronous callback")
			}
			continue
		}
		fr := g.top()
		if fr == nil || len(g.frames) < depth {
			panic("callSync: stack underflow")
		}
		ex.steps++
		if ex.steps > ex.E.Cfg.MaxSteps && ex.steps > ex.maxSteps {
			panic(pathEnd{StInconclusive, "step budget exceeded"})
		}
		ex.step(g, fr)
	}
	g.nested--
	return res
}

// isGeneratedPBPkg recognises protoc-gen-go output (its initialiser only builds descriptors, which the model replaces).
func isGeneratedPBPkg(p *ssa.Package) bool {
	for name, m := range p.Members {
		if _, ok := m.(*ssa.Global); ok && strings.HasPrefix(name, "File_") && strings.HasSuffix(name, "_proto") {
			return true
		}
	}
	return false
}

// inPBFile reports whether pos lies in a protoc-gen-go generated file (*.pb.go but not the router/wrapper plugins' output).
func (ex *Exec) inPBFile(pos token.Pos) bool {
	if !pos.IsValid() {
		return false
	}
	f := ex.E.Prog.Fset.Position(pos).Filename
	return strings.HasSuffix(f, ".pb.go") && !strings.HasSuffix(f, "_router.pb.go") && !strings.HasSuffix(f, "_wrap.pb.go")
}
