package sym

import (
	"go/types"

	"golang.org/x/tools/go/ssa"
)

type pbMsgInfo struct{}
type PRMsg struct{ L *Loc }
type PRField struct{}
type PRList struct{}
type PRMap struct{}
type PRFields struct{}
type PRMsgDesc struct{}
type PREnum struct{}
type ListStub struct{}

func (ex *Exec) pbMethod(g *G, recv Value, name string, args []Value, done func(Value)) {
	ex.unsupported("protobuf reflection method " + name)
}

func (ex *Exec) patternIntrinsic(fn *ssa.Function, name string) intrinsic {
	return nil
}

func (ex *Exec) tokenMsgType() types.Type {
	p := ex.E.Prog.ImportedPackage("google.golang.org/protobuf/types/known/wrapperspb")
	if p == nil {
		ex.unsupported("wrapperspb not loaded (needed for vt.Msg)")
	}
	return types.NewPointer(p.Type("Int64Value").Type())
}
