package sym

// A generic model of protobuf-go over the generated struct layout.  Messages are
// the engine's heap objects of the real generated Go types; the descriptor
// table is derived from the `protobuf:"..."` struct tags of the current tree.
// Scalars stay symbolic; presence of pointers/oneof arms and list/map sizes are
// concrete on a path.  Unknown fields are assumed empty.

import (
	"fmt"
	"go/types"
	"reflect"
	"strconv"
	"strings"

	"golang.org/x/tools/go/ssa"

	"verif/engine/smt"
)

type pbFieldInfo struct {
	Name     string
	JSON     string
	Number   int
	Kind     string // bool int32 sint32 sfixed32 uint32 fixed32 int64 sint64 sfixed64 uint64 fixed64 float double string bytes enum message group
	List     bool
	Map      bool
	Explicit bool // explicit presence (pointer / oneof member / message)
	GoIdx    int
	GoT      types.Type
	Oneof    string
	WrapT    types.Type // *Wrapper for oneof members
	MsgT     types.Type // *Msg for message kind (singular, list element or map value)
	MapKey   *pbFieldInfo
	MapVal   *pbFieldInfo
	Parent   *pbMsgInfo
	Index    int
}

type pbMsgInfo struct {
	T        *types.Named
	PtrT     types.Type
	FullName string
	Name     string
	Fields   []*pbFieldInfo
	byName   map[string]*pbFieldInfo
	desc     *PRMsgDesc
}

// runtime objects
type PRMsg struct {
	L    *Loc // nil: invalid (typed nil) message
	Info *pbMsgInfo
}
type PRField struct{ F *pbFieldInfo }
type PRMsgDesc struct{ Info *pbMsgInfo }
type PRFields struct{ Info *pbMsgInfo }
type PRList struct {
	Slot *Loc // location holding the SliceV (nil: detached empty read-only list)
	F    *pbFieldInfo
	tmp  SliceV
}
type PRMap struct {
	Slot *Loc
	F    *pbFieldInfo
}
type PREnum struct{}
type ListStub struct{}

// PRVal models protoreflect.Value / MapKey.
type PRVal struct {
	Kind string // bool int32 int64 uint32 uint64 float double string bytes enum message list map invalid
	T    *smt.Term
	B    SliceV
	M    *PRMsg
	L    *PRList
	Mp   *PRMap
}

var kindNum = map[string]uint64{
	"bool": 8, "enum": 14, "int32": 5, "sint32": 17, "uint32": 13, "int64": 3, "sint64": 18, "uint64": 4,
	"sfixed32": 15, "fixed32": 7, "float": 2, "sfixed64": 16, "fixed64": 6, "double": 1, "string": 9, "bytes": 12,
	"message": 11, "group": 10,
}

func isPBStruct(t types.Type) (*types.Named, bool) {
	n, ok := types.Unalias(t).(*types.Named)
	if !ok {
		return nil, false
	}
	st, ok := n.Underlying().(*types.Struct)
	if !ok || st.NumFields() < 1 || st.Field(0).Name() != "state" {
		return nil, false
	}
	if !strings.HasSuffix(st.Field(0).Type().String(), "impl.MessageState") {
		return nil, false
	}
	return n, true
}

func isPBPtr(t types.Type) (*types.Named, bool) {
	p, ok := types.Unalias(t).(*types.Pointer)
	if !ok {
		return nil, false
	}
	return isPBStruct(p.Elem())
}

func parseTag(tag string) (wire string, num int, label string, kv map[string]string, flags map[string]bool) {
	parts := strings.Split(tag, ",")
	kv = map[string]string{}
	flags = map[string]bool{}
	if len(parts) >= 3 {
		wire = parts[0]
		num, _ = strconv.Atoi(parts[1])
		label = parts[2]
		for _, p := range parts[3:] {
			if i := strings.IndexByte(p, '='); i >= 0 {
				kv[p[:i]] = p[i+1:]
			} else {
				flags[p] = true
			}
		}
	}
	return
}

func scalarKind(wire string, gt types.Type, kv map[string]string) string {
	if _, isEnum := kv["enum"]; isEnum {
		return "enum"
	}
	if p, ok := gt.(*types.Pointer); ok {
		gt = p.Elem()
	}
	if sl, ok := gt.Underlying().(*types.Slice); ok {
		if b, ok := sl.Elem().Underlying().(*types.Basic); ok && b.Kind() == types.Uint8 {
			return "bytes"
		}
	}
	b, ok := gt.Underlying().(*types.Basic)
	if !ok {
		if wire == "group" {
			return "group"
		}
		return "message"
	}
	switch b.Kind() {
	case types.Bool:
		return "bool"
	case types.String:
		return "string"
	case types.Float32:
		return "float"
	case types.Float64:
		return "double"
	case types.Int32:
		switch wire {
		case "zigzag32":
			return "sint32"
		case "fixed32":
			return "sfixed32"
		}
		return "int32"
	case types.Int64:
		switch wire {
		case "zigzag64":
			return "sint64"
		case "fixed64":
			return "sfixed64"
		}
		return "int64"
	case types.Uint32:
		if wire == "fixed32" {
			return "fixed32"
		}
		return "uint32"
	case types.Uint64:
		if wire == "fixed64" {
			return "fixed64"
		}
		return "uint64"
	}
	return "message"
}

var wellKnownFullNames = map[string]string{
	"google.golang.org/protobuf/types/known/timestamppb.Timestamp": "google.protobuf.Timestamp",
	"google.golang.org/protobuf/types/known/durationpb.Duration":   "google.protobuf.Duration",
	"google.golang.org/protobuf/types/known/fieldmaskpb.FieldMask": "google.protobuf.FieldMask",
	"google.golang.org/protobuf/types/known/emptypb.Empty":         "google.protobuf.Empty",
}

func (e *Engine) msgInfo(n *types.Named) *pbMsgInfo {
	key := n.Obj().Pkg().Path() + "." + n.Obj().Name()
	e.mu.Lock()
	if mi, ok := e.pbInfos[key]; ok {
		e.mu.Unlock()
		return mi
	}
	mi := &pbMsgInfo{T: n, PtrT: types.NewPointer(n), byName: map[string]*pbFieldInfo{}}
	e.pbInfos[key] = mi
	e.mu.Unlock()
	// names
	goName := n.Obj().Name()
	mi.Name = goName
	if i := strings.LastIndex(goName, "_"); i > 0 {
		if o := n.Obj().Pkg().Scope().Lookup(goName[:i]); o != nil {
			if _, ok := isPBStruct(o.Type()); ok {
				mi.Name = goName[i+1:]
			}
		}
	}
	if fn, ok := wellKnownFullNames[key]; ok {
		mi.FullName = fn
	} else {
		mi.FullName = "go." + n.Obj().Pkg().Name() + "." + strings.ReplaceAll(goName, "_", ".")
	}
	st := n.Underlying().(*types.Struct)
	for i := 0; i < st.NumFields(); i++ {
		f := st.Field(i)
		tag := reflect.StructTag(st.Tag(i))
		if on, ok := tag.Lookup("protobuf_oneof"); ok {
			// enumerate wrapper types implementing the oneof interface
			iface, _ := f.Type().Underlying().(*types.Interface)
			scope := n.Obj().Pkg().Scope()
			for _, name := range scope.Names() {
				tn, ok := scope.Lookup(name).(*types.TypeName)
				if !ok {
					continue
				}
				wn, ok := tn.Type().(*types.Named)
				if !ok {
					continue
				}
				wst, ok := wn.Underlying().(*types.Struct)
				if !ok || wst.NumFields() != 1 || iface == nil {
					continue
				}
				if !types.Implements(types.NewPointer(wn), iface) {
					continue
				}
				wtag, ok := reflect.StructTag(wst.Tag(0)).Lookup("protobuf")
				if !ok {
					continue
				}
				fi := e.fieldFromTag(mi, wtag, wst.Field(0).Type(), i, "", "")
				fi.Oneof = on
				fi.Explicit = true
				fi.WrapT = types.NewPointer(wn)
				mi.Fields = append(mi.Fields, fi)
			}
			continue
		}
		pt, ok := tag.Lookup("protobuf")
		if !ok {
			continue
		}
		fi := e.fieldFromTag(mi, pt, f.Type(), i, tag.Get("protobuf_key"), tag.Get("protobuf_val"))
		mi.Fields = append(mi.Fields, fi)
	}
	// order: by Go struct position, oneof members by field number within their slot
	for i := range mi.Fields {
		for j := i + 1; j < len(mi.Fields); j++ {
			a, b := mi.Fields[i], mi.Fields[j]
			if b.GoIdx < a.GoIdx || (b.GoIdx == a.GoIdx && b.Number < a.Number) {
				mi.Fields[i], mi.Fields[j] = b, a
			}
		}
	}
	for i, f := range mi.Fields {
		f.Index = i
		mi.byName[f.Name] = f
	}
	mi.desc = &PRMsgDesc{Info: mi}
	return mi
}

func (e *Engine) fieldFromTag(mi *pbMsgInfo, tag string, gt types.Type, goIdx int, keyTag, valTag string) *pbFieldInfo {
	wire, num, label, kv, flags := parseTag(tag)
	fi := &pbFieldInfo{Name: kv["name"], JSON: kv["json"], Number: num, GoIdx: goIdx, GoT: gt, Parent: mi}
	if fi.JSON == "" {
		fi.JSON = fi.Name
	}
	if mt, ok := gt.Underlying().(*types.Map); ok && keyTag != "" {
		fi.Map = true
		fi.Kind = "message"
		fi.MapKey = e.fieldFromTag(mi, keyTag, mt.Key(), goIdx, "", "")
		fi.MapVal = e.fieldFromTag(mi, valTag, mt.Elem(), goIdx, "", "")
		return fi
	}
	et := gt
	if label == "rep" {
		if sl, ok := gt.Underlying().(*types.Slice); ok {
			if b, isB := sl.Elem().Underlying().(*types.Basic); !(isB && b.Kind() == types.Uint8 && wire == "bytes" && false) {
				fi.List = true
				et = sl.Elem()
			}
		}
	}
	fi.Kind = scalarKind(wire, et, kv)
	if fi.Kind == "message" || fi.Kind == "group" {
		fi.MsgT = et
		fi.Explicit = !fi.List
	} else if _, isPtr := et.(*types.Pointer); isPtr && !fi.List {
		fi.Explicit = true
	}
	_ = flags
	return fi
}

// ---- helpers over message locations ----

func (ex *Exec) prMsgOf(v Value) (*PRMsg, bool) {
	iv, ok := v.(IfaceV)
	if ok {
		if m, ok := iv.V.(*PRMsg); ok {
			return m, true
		}
		if iv.T == nil {
			return nil, false
		}
		n, ok := isPBPtr(iv.T)
		if !ok {
			return nil, false
		}
		p, ok := iv.V.(Ptr)
		if !ok {
			return nil, false
		}
		return &PRMsg{L: p.L, Info: ex.E.msgInfo(n)}, true
	}
	return nil, false
}

func (ex *Exec) msgIface(m *PRMsg) Value {
	return IfaceV{T: m.Info.PtrT, V: Ptr{m.L}}
}

func (ex *Exec) newMsg(info *pbMsgInfo) *PRMsg {
	return &PRMsg{L: ex.newLoc(info.T), Info: info}
}

func (ex *Exec) infoOfPtrT(t types.Type) *pbMsgInfo {
	n, ok := isPBPtr(t)
	if !ok {
		ex.unsupported("not a generated message type: " + t.String())
	}
	return ex.E.msgInfo(n)
}

// slot returns the struct-field location of f in message m.
func (m *PRMsg) slot(f *pbFieldInfo) *Loc { return m.L.Kids[f.GoIdx] }

func kindSort(kind string) smt.Sort {
	switch kind {
	case "bool":
		return smt.Bool
	case "int32", "sint32", "sfixed32", "uint32", "fixed32", "enum":
		return smt.BV(32)
	case "int64", "sint64", "sfixed64", "uint64", "fixed64":
		return smt.BV(64)
	case "float":
		return smt.F32
	case "double":
		return smt.F64
	case "string":
		return smt.Str
	}
	return smt.Sort{}
}

func valKind(kind string) string {
	switch kind {
	case "sint32", "sfixed32":
		return "int32"
	case "sint64", "sfixed64":
		return "int64"
	case "fixed32":
		return "uint32"
	case "fixed64":
		return "uint64"
	case "group":
		return "message"
	}
	return kind
}

// nonZero: presence test of an implicit-presence scalar.
func (ex *Exec) nonZero(kind string, t *smt.Term) *smt.Term {
	B := ex.B
	switch t.Sort.K {
	case smt.KBool:
		return t
	case smt.KBV:
		return B.Not(B.Eq(t, B.BVC(0, t.Sort.W)))
	case smt.KStr:
		return B.Not(B.Eq(t, B.StrC("")))
	case smt.KFP:
		return B.Not(B.Eq(B.FToBits(t), B.BVC(0, t.Sort.W)))
	}
	panic("nonZero")
}

// oneofArm returns the field info of the populated arm stored in slot (nil if none).
func (ex *Exec) oneofWrapper(m *PRMsg, f *pbFieldInfo) *Loc {
	iv, _ := m.slot(f).V.(IfaceV)
	if iv.T == nil || !types.Identical(iv.T, f.WrapT) {
		return nil
	}
	p, _ := iv.V.(Ptr)
	return p.L
}

// has: presence as a term (constant whenever structure decides it).
func (ex *Exec) pbHas(m *PRMsg, f *pbFieldInfo) *smt.Term {
	if m.L == nil {
		return ex.B.False()
	}
	if f.Oneof != "" {
		return ex.boolC(ex.oneofWrapper(m, f) != nil)
	}
	s := m.slot(f)
	switch {
	case f.Map:
		mv, _ := s.V.(MapV)
		return ex.boolC(mv.M != nil && len(mv.M.Keys) > 0)
	case f.List:
		sv, _ := s.V.(SliceV)
		return ex.boolC(sv.Len > 0)
	case f.Explicit:
		p, _ := s.V.(Ptr)
		return ex.boolC(p.L != nil)
	case f.Kind == "bytes":
		sv, _ := s.V.(SliceV)
		return ex.boolC(sv.Len > 0)
	}
	return ex.nonZero(f.Kind, termOf(s.V))
}

func (ex *Exec) zeroScalar(kind string) *smt.Term {
	so := kindSort(kind)
	switch so.K {
	case smt.KBool:
		return ex.B.False()
	case smt.KBV:
		return ex.B.BVC(0, so.W)
	case smt.KStr:
		return ex.B.StrC("")
	case smt.KFP:
		return ex.B.FPC(0, so.W)
	}
	panic("zeroScalar " + kind)
}

// pbGet returns the value of field f (default when unset).
func (ex *Exec) pbGet(m *PRMsg, f *pbFieldInfo) *PRVal {
	if f.Map {
		if m.L == nil {
			return &PRVal{Kind: "map", Mp: &PRMap{F: f}}
		}
		return &PRVal{Kind: "map", Mp: &PRMap{Slot: m.slot(f), F: f}}
	}
	if f.List {
		if m.L == nil {
			return &PRVal{Kind: "list", L: &PRList{F: f}}
		}
		return &PRVal{Kind: "list", L: &PRList{Slot: m.slot(f), F: f}}
	}
	var holder *Loc // location holding the Go value
	if m.L != nil {
		ex.noteAccess(m.slot(f), false)
		if f.Oneof != "" {
			if w := ex.oneofWrapper(m, f); w != nil {
				holder = w.Kids[0]
			}
		} else {
			holder = m.slot(f)
		}
	}
	return ex.valFromGo(f, holder)
}

// valFromGo converts the Go representation stored in holder (nil: unset) to a PRVal of singular field f.
func (ex *Exec) valFromGo(f *pbFieldInfo, holder *Loc) *PRVal {
	k := valKind(f.Kind)
	if k == "message" {
		info := ex.infoOfPtrT(f.MsgT)
		if holder == nil {
			return &PRVal{Kind: "message", M: &PRMsg{Info: info}}
		}
		p, _ := holder.V.(Ptr)
		return &PRVal{Kind: "message", M: &PRMsg{L: p.L, Info: info}}
	}
	if k == "bytes" {
		if holder == nil {
			return &PRVal{Kind: "bytes"}
		}
		sv, _ := holder.V.(SliceV)
		return &PRVal{Kind: "bytes", B: sv}
	}
	if holder == nil {
		return &PRVal{Kind: k, T: ex.zeroScalar(f.Kind)}
	}
	v := holder.V
	if p, ok := v.(Ptr); ok { // explicit-presence scalar
		if p.L == nil {
			return &PRVal{Kind: k, T: ex.zeroScalar(f.Kind)}
		}
		v = p.L.V
	}
	return &PRVal{Kind: k, T: termOf(v)}
}

// goFromVal converts a PRVal to the Go representation of an element of field f (scalar term, Ptr to message, bytes slice).
func (ex *Exec) goFromVal(f *pbFieldInfo, v *PRVal) Value {
	k := valKind(f.Kind)
	switch k {
	case "message":
		if v.Kind != "message" {
			ex.pbPanic(fmt.Sprintf("type mismatch: cannot convert %s to message", v.Kind))
		}
		return Ptr{v.M.L}
	case "bytes":
		return v.B
	}
	if v.T == nil {
		ex.pbPanic(fmt.Sprintf("type mismatch: cannot convert %s to %s", v.Kind, k))
	}
	t := v.T
	want := kindSort(f.Kind)
	if isIntF(t) && want.K == smt.KFP {
		return t
	}
	if t.Sort != want {
		switch {
		case t.Sort.K == smt.KBV && want.K == smt.KBV && want.W < t.Sort.W:
			t = ex.B.Extract(t, want.W-1, 0)
		case t.Sort.K == smt.KFP && want.K == smt.KFP:
			t = ex.B.FToFP(t, want.W)
		default:
			ex.pbPanic(fmt.Sprintf("type mismatch: value of kind %s for field of kind %s", v.Kind, f.Kind))
		}
	}
	return t
}

func (ex *Exec) pbPanic(msg string) {
	ex.goPanic(ex.cur, IfaceV{V: &ErrObj{Kind: "runtime", Msg: msg}}, msg)
	panic(pbUnwind{})
}

type pbUnwind struct{}

// pbSet stores v into singular field f.
func (ex *Exec) pbSet(m *PRMsg, f *pbFieldInfo, v *PRVal) {
	if m.L == nil {
		ex.pbPanic("invalid message: cannot set field of nil message")
	}
	if f.Map {
		if v.Kind != "map" {
			ex.pbPanic("type mismatch: expected map")
		}
		ex.store(m.slot(f), v.Mp.Slot.V)
		return
	}
	if f.List {
		if v.Kind != "list" {
			ex.pbPanic("type mismatch: expected list")
		}
		ex.store(m.slot(f), v.L.slice())
		return
	}
	gv := ex.goFromVal(f, v)
	if f.Oneof != "" {
		w := ex.newLoc(f.WrapT.(*types.Pointer).Elem())
		ex.storeRaw(w.Kids[0], gv)
		ex.store(m.slot(f), IfaceV{T: f.WrapT, V: Ptr{w}})
		return
	}
	if f.Explicit && valKind(f.Kind) != "message" {
		cell := ex.newLoc(f.GoT.(*types.Pointer).Elem())
		cell.V = gv
		ex.store(m.slot(f), Ptr{cell})
		return
	}
	ex.store(m.slot(f), gv)
}

func (ex *Exec) pbClear(m *PRMsg, f *pbFieldInfo) {
	if m.L == nil {
		return
	}
	if f.Oneof != "" {
		if ex.oneofWrapper(m, f) != nil {
			ex.store(m.slot(f), IfaceV{})
		}
		return
	}
	ex.store(m.slot(f), ex.zero(f.GoT))
}

// pbMutable returns a mutable reference to a composite field, creating it if needed.
func (ex *Exec) pbMutable(m *PRMsg, f *pbFieldInfo) *PRVal {
	if m.L == nil {
		ex.pbPanic("invalid message: Mutable on nil message")
	}
	switch {
	case f.Map:
		s := m.slot(f)
		if mv, _ := s.V.(MapV); mv.M == nil {
			mt := f.GoT.Underlying().(*types.Map)
			ex.nobj++
			ex.store(s, MapV{&MapObj{KT: mt.Key(), VT: mt.Elem(), ID: ex.nobj}})
		}
		return &PRVal{Kind: "map", Mp: &PRMap{Slot: s, F: f}}
	case f.List:
		return &PRVal{Kind: "list", L: &PRList{Slot: m.slot(f), F: f}}
	case valKind(f.Kind) == "message":
		info := ex.infoOfPtrT(f.MsgT)
		if f.Oneof != "" {
			if w := ex.oneofWrapper(m, f); w != nil {
				if p, _ := w.Kids[0].V.(Ptr); p.L != nil {
					return &PRVal{Kind: "message", M: &PRMsg{L: p.L, Info: info}}
				}
			}
			nm := ex.newMsg(info)
			ex.pbSet(m, f, &PRVal{Kind: "message", M: nm})
			return &PRVal{Kind: "message", M: nm}
		}
		s := m.slot(f)
		if p, _ := s.V.(Ptr); p.L != nil {
			return &PRVal{Kind: "message", M: &PRMsg{L: p.L, Info: info}}
		}
		nm := ex.newMsg(info)
		ex.store(s, Ptr{nm.L})
		return &PRVal{Kind: "message", M: nm}
	}
	ex.pbPanic("invalid Mutable on field with non-composite type")
	return nil
}

func (l *PRList) slice() SliceV {
	if l.Slot == nil {
		return l.tmp
	}
	sv, _ := l.Slot.V.(SliceV)
	return sv
}

func (ex *Exec) listElemVal(l *PRList, i int) *PRVal {
	sv := l.slice()
	return ex.valFromGo(l.F, sv.Arr.Kids[sv.Off+i])
}

func (ex *Exec) elemType(f *pbFieldInfo) types.Type {
	return f.GoT.Underlying().(*types.Slice).Elem()
}

// ---- proto.Clone / Equal / Merge / Reset ----

func (ex *Exec) pbCloneMsg(m *PRMsg) *PRMsg {
	if m.L == nil {
		return &PRMsg{Info: m.Info}
	}
	n := ex.newMsg(m.Info)
	ex.pbMerge(n, m)
	if ns, ok := ghostNS(m.L); ok {
		// a fresh clone of a normalised Duration/Timestamp has the same fields, hence the same ghost
		for i, k := range m.L.Kids {
			if i > 0 && k.Kids == nil {
				n.L.Kids[i].V = k.V
			}
		}
		ex.setGhostNS(n.L, ns)
	}
	return n
}

func (ex *Exec) cloneGoElem(f *pbFieldInfo, v Value) Value {
	switch valKind(f.Kind) {
	case "message":
		p, _ := v.(Ptr)
		if p.L == nil {
			return Ptr{}
		}
		c := ex.pbCloneMsg(&PRMsg{L: p.L, Info: ex.infoOfPtrT(f.MsgT)})
		return Ptr{c.L}
	case "bytes":
		return ex.cloneBytes(v)
	}
	return v
}

func (ex *Exec) cloneBytes(v Value) Value {
	sv, _ := v.(SliceV)
	if sv.Arr == nil {
		return SliceV{}
	}
	arr := ex.newArrayLoc(sv.Arr.T.(*types.Array).Elem(), sv.Len)
	for i := 0; i < sv.Len; i++ {
		arr.Kids[i].V = sv.Arr.Kids[sv.Off+i].V
	}
	return SliceV{Arr: arr, Len: sv.Len, Cap: sv.Len}
}

// pbMerge implements proto.Merge(dst, src).
func (ex *Exec) pbMerge(dst, src *PRMsg) {
	if src.L == nil {
		return
	}
	if dst.L == nil {
		ex.pbPanic("proto: merge into invalid (nil) message")
	}
	B := ex.B
	for _, f := range src.Info.Fields {
		ex.noteAccess(src.slot(f), false)
		switch {
		case f.Map:
			smv, _ := src.slot(f).V.(MapV)
			if smv.M == nil || len(smv.M.Keys) == 0 {
				continue
			}
			dm := ex.pbMutable(dst, f).Mp.Slot.V.(MapV).M
			for i, k := range smv.M.Keys {
				ex.mapSet(dm, k, ex.cloneGoElem(f.MapVal, ex.load(smv.M.Vals[i])))
			}
		case f.List:
			ssv, _ := src.slot(f).V.(SliceV)
			if ssv.Len == 0 {
				continue
			}
			var add []Value
			for i := 0; i < ssv.Len; i++ {
				add = append(add, ex.cloneGoElem(f, ex.load(ssv.Arr.Kids[ssv.Off+i])))
			}
			// protobuf-go appends the elements one at a time (reflection List.Append), which decides the capacity the
			// destination slice ends up with - and spare capacity decides what later in-place inserts can alias
			dsv, _ := dst.slot(f).V.(SliceV)
			for _, a := range add {
				dsv = ex.appendVals(ex.cur, dsv, ex.elemType(f), []Value{a}).(SliceV)
			}
			ex.store(dst.slot(f), dsv)
		case f.Oneof != "":
			w := ex.oneofWrapper(src, f)
			if w == nil {
				continue
			}
			if valKind(f.Kind) == "message" {
				sp, _ := w.Kids[0].V.(Ptr)
				dv := ex.pbMutable(dst, f)
				ex.pbMerge(dv.M, &PRMsg{L: sp.L, Info: dv.M.Info})
				continue
			}
			nw := ex.newLoc(f.WrapT.(*types.Pointer).Elem())
			ex.storeRaw(nw.Kids[0], ex.cloneGoElem(f, w.Kids[0].V))
			ex.store(dst.slot(f), IfaceV{T: f.WrapT, V: Ptr{nw}})
		case valKind(f.Kind) == "message":
			sp, _ := src.slot(f).V.(Ptr)
			if sp.L == nil {
				continue
			}
			if dp, _ := dst.slot(f).V.(Ptr); dp.L == nil {
				// absent in dst: the merged result is a clone (keeps the exact-nanosecond ghost of Duration/Timestamp)
				c := ex.pbCloneMsg(&PRMsg{L: sp.L, Info: ex.infoOfPtrT(f.MsgT)})
				ex.store(dst.slot(f), Ptr{c.L})
				continue
			}
			dv := ex.pbMutable(dst, f)
			ex.pbMerge(dv.M, &PRMsg{L: sp.L, Info: dv.M.Info})
		case f.Explicit:
			sp, _ := src.slot(f).V.(Ptr)
			if sp.L == nil {
				continue
			}
			cell := ex.newLoc(f.GoT.(*types.Pointer).Elem())
			cell.V = ex.cloneGoElem(f, sp.L.V)
			ex.store(dst.slot(f), Ptr{cell})
		case f.Kind == "bytes":
			ssv, _ := src.slot(f).V.(SliceV)
			if ssv.Len == 0 {
				continue
			}
			ex.store(dst.slot(f), ex.cloneBytes(ssv))
		default:
			sv := termOf(src.slot(f).V)
			dv := termOf(dst.slot(f).V)
			nv := B.Ite(ex.nonZero(f.Kind, sv), sv, dv)
			if nv != dv {
				ex.store(dst.slot(f), nv)
			}
		}
	}
}

func (ex *Exec) pbReset(m *PRMsg) {
	if m.L == nil {
		return
	}
	for i, k := range m.L.Kids {
		if i == 0 {
			continue // state
		}
		ex.store(k, ex.zero(k.T))
	}
}

// scalarEq: proto.Equal on scalars (NaN equals NaN; implicit presence makes -0 differ from +0).
func (ex *Exec) scalarEq(kind string, a, b *smt.Term, implicit bool) *smt.Term {
	B := ex.B
	if a.Sort.K == smt.KFP {
		bothNaN := B.And(B.FUn(smt.OFIsNaN, a), B.FUn(smt.OFIsNaN, b))
		if implicit {
			return B.Or(bothNaN, B.Eq(B.FToBits(a), B.FToBits(b)))
		}
		return B.Or(bothNaN, B.FCmp(smt.OFEq, a, b))
	}
	return B.Eq(a, b)
}

func (ex *Exec) elemEq(f *pbFieldInfo, a, b Value) *smt.Term {
	switch valKind(f.Kind) {
	case "message":
		pa, _ := a.(Ptr)
		pb, _ := b.(Ptr)
		info := ex.infoOfPtrT(f.MsgT)
		return ex.pbEqualMsg(&PRMsg{L: pa.L, Info: info}, &PRMsg{L: pb.L, Info: info})
	case "bytes":
		return ex.bytesEq(a, b)
	}
	return ex.scalarEq(f.Kind, termOf(a), termOf(b), false)
}

func (ex *Exec) bytesEq(a, b Value) *smt.Term {
	sa, _ := a.(SliceV)
	sb, _ := b.(SliceV)
	if sa.Len != sb.Len {
		return ex.B.False()
	}
	var cs []*smt.Term
	for i := 0; i < sa.Len; i++ {
		cs = append(cs, ex.B.Eq(termOf(sa.Arr.Kids[sa.Off+i].V), termOf(sb.Arr.Kids[sb.Off+i].V)))
	}
	return ex.B.And(cs...)
}

// pbEqualMsg implements the message comparison of proto.Equal as a term.
func (ex *Exec) pbEqualMsg(x, y *PRMsg) *smt.Term {
	B := ex.B
	if x.Info != y.Info {
		return B.False()
	}
	if x.L == nil || y.L == nil {
		// list elements / nested: an invalid message equals an invalid message; nil vs empty differ at the field level (presence)
		if x.L == nil && y.L == nil {
			return B.True()
		}
		// proto.Equal treats a nil nested message inside a list as equal to an empty one? No: Get returns invalid vs valid,
		// equalMessage ranges over fields only, so nil and empty compare equal at this level.
		var other *PRMsg
		if x.L == nil {
			other = y
		} else {
			other = x
		}
		var cs []*smt.Term
		for _, f := range other.Info.Fields {
			cs = append(cs, B.Not(ex.pbHas(other, f)))
		}
		return B.And(cs...)
	}
	if gx, ok := ghostNS(x.L); ok {
		if gy, ok := ghostNS(y.L); ok {
			// both built by New from an exact nanosecond value: New is injective
			return B.Eq(gx, gy)
		}
	}
	if x.L == y.L {
		// same object: equal unless NaN ... proto.Equal short-circuits identical pointers to true
		return B.True()
	}
	var cs []*smt.Term
	for _, f := range x.Info.Fields {
		ex.noteAccess(x.slot(f), false)
		ex.noteAccess(y.slot(f), false)
		switch {
		case f.Map:
			xm, _ := x.slot(f).V.(MapV)
			ym, _ := y.slot(f).V.(MapV)
			nx, ny := 0, 0
			if xm.M != nil {
				nx = len(xm.M.Keys)
			}
			if ym.M != nil {
				ny = len(ym.M.Keys)
			}
			if nx != ny {
				return B.False()
			}
			for i := 0; i < nx; i++ {
				var alts []*smt.Term
				for j := 0; j < ny; j++ {
					alts = append(alts, B.And(ex.keyEq(xm.M.Keys[i], ym.M.Keys[j]),
						ex.elemEq(f.MapVal, ex.load(xm.M.Vals[i]), ex.load(ym.M.Vals[j]))))
				}
				cs = append(cs, B.Or(alts...))
			}
		case f.List:
			xs, _ := x.slot(f).V.(SliceV)
			ys, _ := y.slot(f).V.(SliceV)
			if xs.Len != ys.Len {
				return B.False()
			}
			for i := 0; i < xs.Len; i++ {
				cs = append(cs, ex.elemEq(f, ex.load(xs.Arr.Kids[xs.Off+i]), ex.load(ys.Arr.Kids[ys.Off+i])))
			}
		case f.Oneof != "":
			wx, wy := ex.oneofWrapper(x, f), ex.oneofWrapper(y, f)
			if (wx == nil) != (wy == nil) {
				return B.False()
			}
			if wx != nil {
				if valKind(f.Kind) == "message" {
					cs = append(cs, ex.elemEq(f, wx.Kids[0].V, wy.Kids[0].V))
				} else {
					cs = append(cs, ex.elemEq(f, wx.Kids[0].V, wy.Kids[0].V))
				}
			}
		case valKind(f.Kind) == "message":
			px, _ := x.slot(f).V.(Ptr)
			py, _ := y.slot(f).V.(Ptr)
			if (px.L == nil) != (py.L == nil) {
				return B.False()
			}
			if px.L != nil {
				cs = append(cs, ex.elemEq(f, px, py))
			}
		case f.Explicit:
			px, _ := x.slot(f).V.(Ptr)
			py, _ := y.slot(f).V.(Ptr)
			if (px.L == nil) != (py.L == nil) {
				return B.False()
			}
			if px.L != nil {
				cs = append(cs, ex.elemEq(f, px.L.V, py.L.V))
			}
		case f.Kind == "bytes":
			cs = append(cs, ex.bytesEq(x.slot(f).V, y.slot(f).V))
		default:
			cs = append(cs, ex.scalarEq(f.Kind, termOf(x.slot(f).V), termOf(y.slot(f).V), true))
		}
	}
	return B.And(cs...)
}

// pbEqual implements proto.Equal on interface values.
func (ex *Exec) pbEqual(a, b Value) *smt.Term {
	B := ex.B
	ia, _ := a.(IfaceV)
	ib, _ := b.(IfaceV)
	na, nb := ia.T == nil && ia.V == nil, ib.T == nil && ib.V == nil
	if na || nb {
		return B.BoolC(na && nb)
	}
	ta, okA := ia.V.(TokenV)
	tb, okB := ib.V.(TokenV)
	if okA || okB {
		if okA && okB {
			return B.Eq(ta.ID, tb.ID)
		}
		return B.False()
	}
	ma, ok1 := ex.prMsgOf(ia)
	mb, ok2 := ex.prMsgOf(ib)
	if !ok1 || !ok2 {
		ex.unsupported(fmt.Sprintf("proto.Equal on %T / %T", ia.V, ib.V))
	}
	if ma.Info != mb.Info {
		return B.False()
	}
	if (ma.L == nil) != (mb.L == nil) {
		return B.False()
	}
	if ma.L == nil {
		return B.True()
	}
	return ex.pbEqualMsg(ma, mb)
}

func init() {
	reg("google.golang.org/protobuf/proto.Clone", func(ex *Exec, g *G, fn *ssa.Function, args []Value, done func(Value)) {
		iv, _ := args[0].(IfaceV)
		if iv.T == nil && iv.V == nil {
			done(IfaceV{})
			return
		}
		if tk, ok := iv.V.(TokenV); ok {
			ex.tokGen++
			done(IfaceV{T: iv.T, V: TokenV{ID: tk.ID, Gen: ex.tokGen}})
			return
		}
		m, ok := ex.prMsgOf(iv)
		if !ok {
			ex.unsupported(fmt.Sprintf("proto.Clone of %T", iv.V))
		}
		ex.guardPB(g, func() { done(ex.msgIface(ex.pbCloneMsg(m))) })
	})
	reg("google.golang.org/protobuf/proto.Equal", func(ex *Exec, g *G, fn *ssa.Function, args []Value, done func(Value)) {
		done(ex.pbEqual(args[0], args[1]))
	})
	reg("google.golang.org/protobuf/proto.Merge", func(ex *Exec, g *G, fn *ssa.Function, args []Value, done func(Value)) {
		d, ok1 := ex.prMsgOf(args[0])
		s, ok2 := ex.prMsgOf(args[1])
		if !ok1 || !ok2 {
			ex.unsupported("proto.Merge on non-message")
		}
		if d.Info != s.Info {
			ex.goPanic(g, nil, "descriptor mismatch: "+d.Info.FullName+" != "+s.Info.FullName)
			return
		}
		ex.guardPB(g, func() { ex.pbMerge(d, s); done(nil) })
	})
	reg("google.golang.org/protobuf/proto.Reset", func(ex *Exec, g *G, fn *ssa.Function, args []Value, done func(Value)) {
		m, ok := ex.prMsgOf(args[0])
		if !ok {
			ex.unsupported("proto.Reset on non-message")
		}
		ex.pbReset(m)
		done(nil)
	})
	// protoreflect.Value accessors
	val := func(v Value) *PRVal {
		p, ok := v.(*PRVal)
		if !ok {
			return &PRVal{Kind: "invalid"}
		}
		return p
	}
	pr := "(google.golang.org/protobuf/reflect/protoreflect.Value)."
	mk := "(google.golang.org/protobuf/reflect/protoreflect.MapKey)."
	reg(pr+"Message", func(ex *Exec, g *G, fn *ssa.Function, args []Value, done func(Value)) {
		v := val(args[0])
		if v.Kind != "message" {
			ex.goPanic(g, nil, "type mismatch: cannot convert "+v.Kind+" to message")
			return
		}
		done(IfaceV{V: v.M})
	})
	reg(pr+"List", func(ex *Exec, g *G, fn *ssa.Function, args []Value, done func(Value)) {
		v := val(args[0])
		if v.Kind != "list" {
			ex.goPanic(g, nil, "type mismatch: cannot convert "+v.Kind+" to list")
			return
		}
		done(IfaceV{V: v.L})
	})
	reg(pr+"Map", func(ex *Exec, g *G, fn *ssa.Function, args []Value, done func(Value)) {
		v := val(args[0])
		if v.Kind != "map" {
			ex.goPanic(g, nil, "type mismatch: cannot convert "+v.Kind+" to map")
			return
		}
		done(IfaceV{V: v.Mp})
	})
	reg(pr+"Bool", func(ex *Exec, g *G, fn *ssa.Function, args []Value, done func(Value)) {
		v := val(args[0])
		if v.Kind != "bool" {
			ex.goPanic(g, nil, "type mismatch: cannot convert "+v.Kind+" to bool")
			return
		}
		done(v.T)
	})
	reg(pr+"Int", func(ex *Exec, g *G, fn *ssa.Function, args []Value, done func(Value)) {
		v := val(args[0])
		if v.Kind != "int32" && v.Kind != "int64" {
			ex.goPanic(g, nil, "type mismatch: cannot convert "+v.Kind+" to int")
			return
		}
		done(ex.B.Sext(v.T, 64))
	})
	reg(pr+"Uint", func(ex *Exec, g *G, fn *ssa.Function, args []Value, done func(Value)) {
		v := val(args[0])
		if v.Kind != "uint32" && v.Kind != "uint64" {
			ex.goPanic(g, nil, "type mismatch: cannot convert "+v.Kind+" to uint")
			return
		}
		done(ex.B.Zext(v.T, 64))
	})
	reg(pr+"Float", func(ex *Exec, g *G, fn *ssa.Function, args []Value, done func(Value)) {
		v := val(args[0])
		if v.Kind != "float" && v.Kind != "double" {
			ex.goPanic(g, nil, "type mismatch: cannot convert "+v.Kind+" to float")
			return
		}
		done(ex.B.FToFP(v.T, 64))
	})
	reg(pr+"Enum", func(ex *Exec, g *G, fn *ssa.Function, args []Value, done func(Value)) {
		v := val(args[0])
		if v.Kind != "enum" {
			ex.goPanic(g, nil, "type mismatch: cannot convert "+v.Kind+" to enum")
			return
		}
		done(v.T)
	})
	reg(pr+"String|"+mk+"String", func(ex *Exec, g *G, fn *ssa.Function, args []Value, done func(Value)) {
		v := val(args[0])
		if v.Kind != "string" {
			done(ex.strC("<value>"))
			return
		}
		done(v.T)
	})
	reg(pr+"Bytes", func(ex *Exec, g *G, fn *ssa.Function, args []Value, done func(Value)) {
		v := val(args[0])
		if v.Kind != "bytes" {
			ex.goPanic(g, nil, "type mismatch: cannot convert "+v.Kind+" to bytes")
			return
		}
		done(v.B)
	})
	reg(pr+"IsValid", func(ex *Exec, g *G, fn *ssa.Function, args []Value, done func(Value)) {
		v := val(args[0])
		done(ex.boolC(v.Kind != "invalid"))
	})
	reg(pr+"MapKey", func(ex *Exec, g *G, fn *ssa.Function, args []Value, done func(Value)) { done(args[0]) })
	reg(mk+"Value", func(ex *Exec, g *G, fn *ssa.Function, args []Value, done func(Value)) { done(args[0]) })
	reg(pr+"Interface|"+mk+"Interface", func(ex *Exec, g *G, fn *ssa.Function, args []Value, done func(Value)) {
		v := val(args[0])
		switch v.Kind {
		case "message":
			done(IfaceV{V: v.M})
		case "list":
			done(IfaceV{V: v.L})
		case "map":
			done(IfaceV{V: v.Mp})
		case "invalid":
			done(IfaceV{})
		default:
			ex.unsupported("protoreflect.Value.Interface of scalar")
		}
	})
	vo := "google.golang.org/protobuf/reflect/protoreflect.ValueOf"
	mkScalar := func(kind string) intrinsic {
		return func(ex *Exec, g *G, fn *ssa.Function, args []Value, done func(Value)) {
			done(&PRVal{Kind: kind, T: termOf(args[0])})
		}
	}
	reg(vo+"Bool", mkScalar("bool"))
	reg(vo+"Int32", mkScalar("int32"))
	reg(vo+"Int64", mkScalar("int64"))
	reg(vo+"Uint32", mkScalar("uint32"))
	reg(vo+"Uint64", mkScalar("uint64"))
	reg(vo+"Float32", mkScalar("float"))
	reg(vo+"Float64", mkScalar("double"))
	reg(vo+"String", mkScalar("string"))
	reg(vo+"Enum", mkScalar("enum"))
	reg(vo+"Bytes", func(ex *Exec, g *G, fn *ssa.Function, args []Value, done func(Value)) {
		sv, _ := args[0].(SliceV)
		done(&PRVal{Kind: "bytes", B: sv})
	})
	reg(vo+"Message", func(ex *Exec, g *G, fn *ssa.Function, args []Value, done func(Value)) {
		iv, _ := args[0].(IfaceV)
		m, ok := iv.V.(*PRMsg)
		if !ok {
			ex.unsupported("ValueOfMessage of non-model message")
		}
		done(&PRVal{Kind: "message", M: m})
	})
	reg(vo+"List", func(ex *Exec, g *G, fn *ssa.Function, args []Value, done func(Value)) {
		iv, _ := args[0].(IfaceV)
		done(&PRVal{Kind: "list", L: iv.V.(*PRList)})
	})
	reg(vo+"Map", func(ex *Exec, g *G, fn *ssa.Function, args []Value, done func(Value)) {
		iv, _ := args[0].(IfaceV)
		done(&PRVal{Kind: "map", Mp: iv.V.(*PRMap)})
	})
	reg("(google.golang.org/protobuf/internal/impl.Export).NewError", func(ex *Exec, g *G, fn *ssa.Function, args []Value, done func(Value)) {
		done(ex.errIface(&ErrObj{Kind: "errors", Msg: "proto: " + ex.fmtString(args[1:])}))
	})
}

// guardPB runs f converting model-level protobuf panics into Go panics of the goroutine.
func (ex *Exec) guardPB(g *G, f func()) {
	defer func() {
		if r := recover(); r != nil {
			if _, ok := r.(pbUnwind); ok {
				return
			}
			panic(r)
		}
	}()
	f()
}

// patternIntrinsic recognises generated-code methods by shape.
func (ex *Exec) patternIntrinsic(fn *ssa.Function, name string) intrinsic {
	if fn.Signature.Recv() == nil {
		return nil
	}
	n, ok := isPBPtr(fn.Signature.Recv().Type())
	if !ok {
		return nil
	}
	switch fn.Name() {
	case "ProtoReflect":
		return func(ex *Exec, g *G, fn *ssa.Function, args []Value, done func(Value)) {
			p, _ := args[0].(Ptr)
			done(IfaceV{V: &PRMsg{L: p.L, Info: ex.E.msgInfo(n)}})
		}
	case "Reset":
		return func(ex *Exec, g *G, fn *ssa.Function, args []Value, done func(Value)) {
			p, _ := args[0].(Ptr)
			ex.pbReset(&PRMsg{L: p.L, Info: ex.E.msgInfo(n)})
			done(nil)
		}
	case "String":
		return func(ex *Exec, g *G, fn *ssa.Function, args []Value, done func(Value)) {
			done(ex.strC("<" + n.Obj().Name() + ">"))
		}
	case "ProtoMessage":
		return func(ex *Exec, g *G, fn *ssa.Function, args []Value, done func(Value)) { done(nil) }
	}
	return nil
}

func (ex *Exec) tokenMsgType() types.Type {
	p := ex.E.Prog.ImportedPackage("google.golang.org/protobuf/types/known/wrapperspb")
	if p == nil {
		ex.unsupported("wrapperspb not loaded (needed for vt.Msg)")
	}
	return types.NewPointer(p.Type("Int64Value").Type())
}

func fdOf(ex *Exec, v Value) *pbFieldInfo {
	iv, _ := v.(IfaceV)
	f, ok := iv.V.(*PRField)
	if !ok {
		ex.unsupported(fmt.Sprintf("field descriptor of kind %T", iv.V))
	}
	return f.F
}

func (ex *Exec) descIface(info *pbMsgInfo) Value { return IfaceV{V: info.desc} }

// pbMethod dispatches methods of the protoreflect model objects.
func (ex *Exec) pbMethod(g *G, recv Value, name string, args []Value, done func(Value)) {
	ex.res.Stubs["protoreflect."+strings.TrimPrefix(fmt.Sprintf("%T", recv), "*sym.")+"."+name] = true
	ex.guardPB(g, func() { ex.pbMethod1(g, recv, name, args, done) })
}

func (ex *Exec) pbMethod1(g *G, recv Value, name string, args []Value, done func(Value)) {
	B := ex.B
	switch r := recv.(type) {
	case *PRMsg:
		switch name {
		case "Descriptor":
			done(ex.descIface(r.Info))
		case "Interface":
			done(ex.msgIface(r))
		case "IsValid":
			done(ex.boolC(r.L != nil))
		case "New":
			done(IfaceV{V: ex.newMsg(r.Info)})
		case "Type":
			done(IfaceV{V: r.Info.desc})
		case "GetUnknown":
			done(SliceV{})
		case "SetUnknown":
			done(nil)
		case "Has":
			done(ex.pbHas(r, fdOf(ex, args[0])))
		case "Get":
			done(ex.pbGet(r, fdOf(ex, args[0])))
		case "Clear":
			ex.pbClear(r, fdOf(ex, args[0]))
			done(nil)
		case "Set":
			ex.pbSet(r, fdOf(ex, args[0]), args[1].(*PRVal))
			done(nil)
		case "Mutable":
			done(ex.pbMutable(r, fdOf(ex, args[0])))
		case "NewField":
			f := fdOf(ex, args[0])
			switch {
			case f.Map:
				mt := f.GoT.Underlying().(*types.Map)
				slot := ex.newLoc(f.GoT)
				ex.nobj++
				slot.V = MapV{&MapObj{KT: mt.Key(), VT: mt.Elem(), ID: ex.nobj}}
				done(&PRVal{Kind: "map", Mp: &PRMap{Slot: slot, F: f}})
			case f.List:
				slot := ex.newLoc(f.GoT)
				done(&PRVal{Kind: "list", L: &PRList{Slot: slot, F: f}})
			case valKind(f.Kind) == "message":
				done(&PRVal{Kind: "message", M: ex.newMsg(ex.infoOfPtrT(f.MsgT))})
			default:
				done(ex.valFromGo(f, nil))
			}
		case "Range":
			if r.L == nil {
				done(nil)
				return
			}
			for _, f := range r.Info.Fields {
				if !ex.branch(ex.pbHas(r, f)) {
					continue
				}
				cv := ex.callSync(g, args[0], []Value{IfaceV{V: ex.fieldDesc(f)}, ex.pbGet(r, f)})
				if g.panic != nil {
					return
				}
				if !ex.branch(termOf(cv)) {
					break
				}
			}
			done(nil)
		case "WhichOneof":
			ex.unsupported("WhichOneof")
		default:
			ex.unsupported("protoreflect.Message." + name)
		}
	case *PRField:
		f := r.F
		switch name {
		case "Name":
			done(ex.strC(f.Name))
		case "FullName":
			done(ex.strC(f.Parent.FullName + "." + f.Name))
		case "JSONName":
			done(ex.strC(f.JSON))
		case "TextName":
			done(ex.strC(f.Name))
		case "Number":
			done(B.BVC(uint64(f.Number), 32))
		case "Index":
			done(ex.intC(f.Index))
		case "Kind":
			done(B.BVC(kindNum[f.Kind], 8))
		case "Cardinality":
			c := uint64(1)
			if f.List || f.Map {
				c = 3
			}
			done(B.BVC(c, 8))
		case "IsList":
			done(ex.boolC(f.List))
		case "IsMap":
			done(ex.boolC(f.Map))
		case "IsExtension", "IsWeak", "IsPacked", "IsPlaceholder":
			done(ex.boolC(false))
		case "HasPresence":
			done(ex.boolC(f.Explicit && !f.List && !f.Map))
		case "HasOptionalKeyword":
			done(ex.boolC(f.Explicit && f.Oneof == "" && valKind(f.Kind) != "message"))
		case "Message":
			if f.Map || f.MsgT == nil {
				done(IfaceV{})
			} else {
				done(ex.descIface(ex.infoOfPtrT(f.MsgT)))
			}
		case "ContainingMessage", "Parent":
			done(ex.descIface(f.Parent))
		case "ContainingOneof":
			done(IfaceV{}) // oneof descriptors are not modelled; nil means "not in a oneof" to callers that only test presence
		case "MapKey":
			if f.MapKey == nil {
				done(IfaceV{})
			} else {
				done(IfaceV{V: ex.fieldDesc(f.MapKey)})
			}
		case "MapValue":
			if f.MapVal == nil {
				done(IfaceV{})
			} else {
				done(IfaceV{V: ex.fieldDesc(f.MapVal)})
			}
		case "Default":
			done(ex.valFromGo(f, nil))
		default:
			ex.unsupported("protoreflect.FieldDescriptor." + name)
		}
	case *PRMsgDesc:
		switch name {
		case "Fields":
			done(IfaceV{V: &PRFields{Info: r.Info}})
		case "FullName":
			done(ex.strC(r.Info.FullName))
		case "Name":
			done(ex.strC(r.Info.Name))
		case "Descriptor":
			done(ex.descIface(r.Info))
		case "IsMapEntry", "IsPlaceholder":
			done(ex.boolC(false))
		case "New":
			done(IfaceV{V: ex.newMsg(r.Info)})
		case "Zero":
			done(IfaceV{V: &PRMsg{Info: r.Info}})
		default:
			ex.unsupported("protoreflect.MessageDescriptor." + name)
		}
	case *PRFields:
		switch name {
		case "Len":
			done(ex.intC(len(r.Info.Fields)))
		case "Get":
			i, ok := concInt(args[0])
			if !ok || i < 0 || i >= len(r.Info.Fields) {
				ex.unsupported("FieldDescriptors.Get with symbolic/out of range index")
			}
			done(IfaceV{V: ex.fieldDesc(r.Info.Fields[i])})
		case "ByName", "ByTextName", "ByJSONName":
			nm, ok := concStr(args[0])
			if !ok {
				ex.unsupported("FieldDescriptors.ByName with symbolic name")
			}
			for _, f := range r.Info.Fields {
				if (name == "ByJSONName" && f.JSON == nm) || (name != "ByJSONName" && f.Name == nm) {
					done(IfaceV{V: ex.fieldDesc(f)})
					return
				}
			}
			done(IfaceV{})
		case "ByNumber":
			i, ok := concInt(args[0])
			if !ok {
				ex.unsupported("ByNumber symbolic")
			}
			for _, f := range r.Info.Fields {
				if f.Number == i {
					done(IfaceV{V: ex.fieldDesc(f)})
					return
				}
			}
			done(IfaceV{})
		default:
			ex.unsupported("protoreflect.FieldDescriptors." + name)
		}
	case *PRList:
		sv := r.slice()
		switch name {
		case "Len":
			done(ex.intC(sv.Len))
		case "IsValid":
			done(ex.boolC(r.Slot != nil))
		case "Get":
			i, ok := ex.boundIndex(g, termOf(args[0]), sv.Len)
			if !ok {
				return
			}
			done(ex.listElemVal(r, i))
		case "Set":
			i, ok := ex.boundIndex(g, termOf(args[0]), sv.Len)
			if !ok {
				return
			}
			ex.store(sv.Arr.Kids[sv.Off+i], ex.goFromVal(r.F, args[1].(*PRVal)))
			done(nil)
		case "Append":
			if r.Slot == nil {
				ex.pbPanic("append to read-only list")
			}
			ex.store(r.Slot, ex.appendVals(g, sv, ex.elemType(r.F), []Value{ex.goFromVal(r.F, args[0].(*PRVal))}))
			done(nil)
		case "AppendMutable":
			if r.Slot == nil {
				ex.pbPanic("append to read-only list")
			}
			nm := ex.newMsg(ex.infoOfPtrT(r.F.MsgT))
			ex.store(r.Slot, ex.appendVals(g, sv, ex.elemType(r.F), []Value{Ptr{nm.L}}))
			done(&PRVal{Kind: "message", M: nm})
		case "NewElement":
			if valKind(r.F.Kind) == "message" {
				done(&PRVal{Kind: "message", M: ex.newMsg(ex.infoOfPtrT(r.F.MsgT))})
			} else {
				done(ex.valFromGo(r.F, nil))
			}
		case "Truncate":
			n, ok := concInt(args[0])
			if !ok || n < 0 || n > sv.Len {
				ex.unsupported("List.Truncate")
			}
			for i := n; i < sv.Len; i++ {
				ex.store(sv.Arr.Kids[sv.Off+i], ex.zero(ex.elemType(r.F)))
			}
			ex.store(r.Slot, SliceV{Arr: sv.Arr, Off: sv.Off, Len: n, Cap: sv.Cap})
			done(nil)
		default:
			ex.unsupported("protoreflect.List." + name)
		}
	case *PRMap:
		var mo *MapObj
		if r.Slot != nil {
			mv, _ := r.Slot.V.(MapV)
			mo = mv.M
		}
		keyOf := func(v Value) Value {
			pv := v.(*PRVal)
			return pv.T
		}
		switch name {
		case "Len":
			if mo == nil {
				done(ex.intC(0))
			} else {
				done(ex.intC(len(mo.Keys)))
			}
		case "IsValid":
			done(ex.boolC(mo != nil))
		case "Has":
			i := ex.mapFind(mo, keyOf(args[0]))
			done(ex.boolC(i >= 0))
		case "Get":
			i := ex.mapFind(mo, keyOf(args[0]))
			if i < 0 {
				done(&PRVal{Kind: "invalid"})
			} else {
				done(ex.valFromGo(r.F.MapVal, mo.Vals[i]))
			}
		case "Set":
			if mo == nil {
				ex.pbPanic("assignment to entry in nil map")
			}
			ex.mapSet(mo, keyOf(args[0]), ex.goFromVal(r.F.MapVal, args[1].(*PRVal)))
			done(nil)
		case "Clear":
			if mo != nil {
				ex.mapDelete(mo, keyOf(args[0]))
			}
			done(nil)
		case "Range":
			if mo != nil {
				keys := append([]Value(nil), mo.Keys...)
				vals := append([]*Loc(nil), mo.Vals...)
				for i := range keys {
					kv := &PRVal{Kind: valKind(r.F.MapKey.Kind), T: termOf(keys[i])}
					cv := ex.callSync(g, args[0], []Value{kv, ex.valFromGo(r.F.MapVal, vals[i])})
					if g.panic != nil {
						return
					}
					if !ex.branch(termOf(cv)) {
						break
					}
				}
			}
			done(nil)
		case "NewValue":
			if valKind(r.F.MapVal.Kind) == "message" {
				done(&PRVal{Kind: "message", M: ex.newMsg(ex.infoOfPtrT(r.F.MapVal.MsgT))})
			} else {
				done(ex.valFromGo(r.F.MapVal, nil))
			}
		default:
			ex.unsupported("protoreflect.Map." + name)
		}
	default:
		ex.unsupported(fmt.Sprintf("protobuf model method %s on %T", name, recv))
	}
}

// fieldDesc returns the canonical descriptor object of a field (identity-comparable within a path).
func (ex *Exec) fieldDesc(f *pbFieldInfo) *PRField {
	if ex.fdCache == nil {
		ex.fdCache = map[*pbFieldInfo]*PRField{}
	}
	if d, ok := ex.fdCache[f]; ok {
		return d
	}
	d := &PRField{F: f}
	ex.fdCache[f] = d
	return d
}
