package sym

type raceState struct {
	reports []string
}

func newRaceState() *raceState { return &raceState{} }

func (r *raceState) newG(ex *Exec, g *G)            {}
func (r *raceState) fork(parent, child *G)          {}
func (r *raceState) acquire(g *G, obj any)          {}
func (r *raceState) release(g *G, obj any)          {}
func (r *raceState) releaseRead(g *G, obj any)      {}
func (r *raceState) access(ex *Exec, l *Loc, w bool) {}
