package sym

// Happens-before race monitor (C11).  Vector clocks per goroutine and per
// synchronisation object; an access history per heap cell / map.  Two accesses
// to one cell, at least one a write, unordered by happens-before on a feasible
// path are a data race in the sense of the Go memory model.  Because the
// scheduler only switches goroutines at synchronisation operations, a race-free
// verdict within the bound covers all finer interleavings (DRF argument).

import (
	"fmt"
)

type vclock []int

func (v vclock) get(i int) int {
	if i < len(v) {
		return v[i]
	}
	return 0
}

func join(a, b vclock) vclock {
	n := len(a)
	if len(b) > n {
		n = len(b)
	}
	out := make(vclock, n)
	for i := range out {
		x, y := a.get(i), b.get(i)
		if y > x {
			x = y
		}
		out[i] = x
	}
	return out
}

type accessRec struct {
	g     int
	clock int
	where string
}

type cellHist struct {
	lastWrite *accessRec
	reads     map[int]*accessRec
}

type raceState struct {
	reports []string
	seen    map[string]bool
	gvc     map[int]vclock
	ovc     map[any]vclock // release clocks of sync objects
	rvc     map[any]vclock // read-release clocks of RW mutexes
	cells   map[any]*cellHist
}

func newRaceState() *raceState {
	return &raceState{seen: map[string]bool{}, gvc: map[int]vclock{}, ovc: map[any]vclock{}, rvc: map[any]vclock{}, cells: map[any]*cellHist{}}
}

func (r *raceState) clockOf(g *G) vclock {
	v, ok := r.gvc[g.id]
	if !ok {
		v = make(vclock, g.id+1)
		v[g.id] = 1
		r.gvc[g.id] = v
	}
	if len(v) <= g.id {
		nv := make(vclock, g.id+1)
		copy(nv, v)
		v = nv
		r.gvc[g.id] = v
	}
	return v
}

func (r *raceState) tick(g *G) {
	v := r.clockOf(g)
	v[g.id]++
}

func (r *raceState) newG(ex *Exec, g *G) { r.clockOf(g) }

func (r *raceState) fork(parent, child *G) {
	pv := r.clockOf(parent)
	cv := join(pv, r.clockOf(child))
	if len(cv) <= child.id {
		nv := make(vclock, child.id+1)
		copy(nv, cv)
		cv = nv
	}
	cv[child.id] = 1
	r.gvc[child.id] = cv
	r.tick(parent)
}

func (r *raceState) acquire(g *G, obj any) {
	if g == nil {
		return
	}
	r.gvc[g.id] = join(r.clockOf(g), r.ovc[obj])
	if m, ok := obj.(*mutexState); ok && m.locked {
		// a writer also waits for the readers that released before it
		r.gvc[g.id] = join(r.gvc[g.id], r.rvc[obj])
	}
}

func (r *raceState) release(g *G, obj any) {
	if g == nil {
		return
	}
	r.ovc[obj] = join(r.ovc[obj], r.clockOf(g))
	r.tick(g)
}

func (r *raceState) releaseRead(g *G, obj any) {
	if g == nil {
		return
	}
	r.rvc[obj] = join(r.rvc[obj], r.clockOf(g))
	r.tick(g)
}

func (r *raceState) hb(a *accessRec, g *G) bool {
	if a.g == g.id {
		return true
	}
	return a.clock <= r.clockOf(g).get(a.g)
}

func (r *raceState) report(ex *Exec, kind string, prev *accessRec, g *G) {
	cur := ex.whereShort()
	key := prev.where + "|" + cur
	if prev.where > cur {
		key = cur + "|" + prev.where
	}
	if r.seen[key] {
		return
	}
	r.seen[key] = true
	r.reports = append(r.reports, fmt.Sprintf("%s: g%d at %s races with g%d at %s", kind, g.id, cur, prev.g, prev.where))
}

func (ex *Exec) whereShort() string {
	if ex.cur == nil {
		return "?"
	}
	for i := len(ex.cur.frames) - 1; i >= 0; i-- {
		fr := ex.cur.frames[i]
		if fr.block != nil && fr.ip < len(fr.block.Instrs) {
			p := ex.E.Prog.Fset.Position(fr.block.Instrs[fr.ip].Pos())
			if p.IsValid() {
				return fmt.Sprintf("%s (%s:%d)", fr.fn.String(), shortFile(p.Filename), p.Line)
			}
		}
	}
	if fr := ex.cur.top(); fr != nil {
		return fr.fn.String()
	}
	return "?"
}

func shortFile(f string) string {
	for i := len(f) - 1; i >= 0; i-- {
		if f[i] == '/' {
			return f[i+1:]
		}
	}
	return f
}

// access records a read or write of location l by the current goroutine.
func (r *raceState) access(ex *Exec, l *Loc, write bool) {
	g := ex.cur
	if g == nil || l == nil {
		return
	}
	if l.Kids != nil {
		for _, k := range l.Kids {
			r.access(ex, k, write)
		}
		return
	}
	r.cell(ex, g, l, write)
}

// accessMap records a read or write of a whole map.
func (r *raceState) accessMap(ex *Exec, m *MapObj, write bool) {
	if ex.cur == nil || m == nil {
		return
	}
	r.cell(ex, ex.cur, m, write)
}

func (r *raceState) cell(ex *Exec, g *G, key any, write bool) {
	h := r.cells[key]
	if h == nil {
		h = &cellHist{reads: map[int]*accessRec{}}
		r.cells[key] = h
	}
	me := &accessRec{g: g.id, clock: r.clockOf(g).get(g.id), where: ""}
	if write {
		if h.lastWrite != nil && !r.hb(h.lastWrite, g) {
			r.report(ex, "write-write", h.lastWrite, g)
		}
		for _, rd := range h.reads {
			if !r.hb(rd, g) {
				r.report(ex, "read-write", rd, g)
			}
		}
		me.where = ex.whereShort()
		h.lastWrite = me
		h.reads = map[int]*accessRec{}
		return
	}
	if h.lastWrite != nil && !r.hb(h.lastWrite, g) {
		r.report(ex, "write-read", h.lastWrite, g)
	}
	if prev, ok := h.reads[g.id]; !ok || prev.clock != me.clock {
		me.where = ex.whereShort()
		h.reads[g.id] = me
	}
}
