package sym

import (
	"crypto/md5"
	"encoding/base64"
	"fmt"
	"go/types"
	"math"
	"reflect"
	"strconv"
	"strings"

	"golang.org/x/tools/go/ssa"

	"verif/engine/smt"
)

type intrinsic func(ex *Exec, g *G, fn *ssa.Function, args []Value, done func(Value))

var intrinsics = map[string]intrinsic{}

func reg(names string, h intrinsic) {
	for _, n := range strings.Split(names, "|") {
		intrinsics[n] = h
	}
}

// ---- native objects ----

// ErrObj models error values produced by status / errors / fmt.
type ErrObj struct {
	Kind string    // "status", "errors", "fmt", "runtime", "ctx"
	Code *smt.Term // BV32 (status code); nil when not a status error
	Msg  string
	Wrap Value // wrapped error (IfaceV)
	ID   int
	Sym  *smt.Term // symbolic identity (vt.Err)
}

// StatusObj models *status.Status.
type StatusObj struct {
	Code *smt.Term
	Msg  string
}

// MarshalledMsg stands for the wire bytes of a message (page-token codec model).
type MarshalledMsg struct{ M *PRMsg }

type tokenEntry struct {
	tok *smt.Term
	mm  *MarshalledMsg
}

func (ex *Exec) pageTokenInfo() *pbMsgInfo {
	p := ex.E.Prog.ImportedPackage("github.com/smart-core-os/sc-api/go/types")
	if p == nil || p.Type("PageToken") == nil {
		return nil
	}
	n, _ := p.Type("PageToken").Type().(*types.Named)
	return ex.E.msgInfo(n)
}

// RngObj is an opaque random source.
type RngObj struct{}

// HashObj is crypto/md5 over concrete data: what is written must be concrete, the digest is computed for real.
type HashObj struct{ buf []byte }

type CtxObj struct {
	parent   *CtxObj
	children []*CtxObj
	done     *ChanObj
	err      Value // IfaceV error
	timeout  bool
	vals     map[any]Value
	keyV     Value
	valV     Value
	id       int
}

func isNativeObj(v Value) bool {
	switch v.(type) {
	case *ErrObj, *StatusObj, *CtxObj, *PRMsg, *PRField, *PRList, *PRMap, *PRFields, *PRMsgDesc, *PREnum, *ListStub, *PRVal, *RngObj, *MarshalledMsg, *HashObj:
		return true
	}
	return false
}

func nativeMethods(v Value) map[string]bool {
	switch v.(type) {
	case *ErrObj:
		return map[string]bool{"Error": true}
	case *CtxObj:
		return map[string]bool{"Done": true, "Err": true, "Value": true, "Deadline": true}
	}
	return map[string]bool{}
}

func (ex *Exec) errIface(e *ErrObj) Value {
	ex.nobj++
	e.ID = ex.nobj
	return IfaceV{V: e}
}

func (ex *Exec) nativeMethod(g *G, recv Value, name string, args []Value, done func(Value)) {
	switch r := recv.(type) {
	case *ErrObj:
		switch name {
		case "Error":
			done(ex.strC(r.Msg))
			return
		case "GRPCStatus":
			done(Ptr{})
			return
		}
	case *CtxObj:
		switch name {
		case "Done":
			done(ChanV{r.done})
			return
		case "Err":
			g.pending = &VisOp{Kind: "ctx.Err", Simple: true, Obj: r, Fire: func() {
				if r.err == nil {
					done(IfaceV{})
				} else {
					if ex.race != nil {
						ex.race.acquire(g, r.done)
					}
					done(r.err)
				}
			}}
			return
		case "Value":
			for c := r; c != nil; c = c.parent {
				if c.keyV != nil {
					if eq := ex.valuesEqual(c.keyV, args[0]); eq.IsTrue() {
						done(c.valV)
						return
					}
				}
			}
			done(IfaceV{})
			return
		case "Deadline":
			done(TupleV{ex.zero(ex.timeType()), ex.boolC(false)})
			return
		}
	case *PRMsg, *PRField, *PRList, *PRMap, *PRFields, *PRMsgDesc, *PREnum:
		ex.pbMethod(g, recv, name, args, done)
		return
	case *HashObj:
		switch name {
		case "Write":
			b, ok := ex.concBytes(args[0])
			if !ok {
				ex.unsupported("md5 over symbolic bytes")
			}
			r.buf = append(r.buf, b...)
			done(TupleV{ex.intC(len(b)), IfaceV{}})
			return
		case "WriteString":
			sv, ok := concStr(args[0])
			if !ok {
				ex.unsupported("md5 over a symbolic string")
			}
			r.buf = append(r.buf, sv...)
			done(TupleV{ex.intC(len(sv)), IfaceV{}})
			return
		case "Sum":
			prefix, ok := ex.concBytes(args[0])
			if !ok {
				ex.unsupported("md5 Sum appended to symbolic bytes")
			}
			sum := md5.Sum(r.buf)
			done(ex.byteSlice(append(prefix, sum[:]...)))
			return
		}
	}
	ex.unsupported(fmt.Sprintf("method %s on native %T", name, recv))
}

// ---- errors / status / fmt / log ----

func codeTerm(ex *Exec, v Value) *smt.Term {
	t := termOf(v)
	if t.Sort.W != 32 {
		t = ex.B.Extract(t, 31, 0)
	}
	return t
}

func (ex *Exec) fmtString(args []Value) string {
	// formatting is modelled opaquely: constant format string is kept, arguments are described
	if len(args) == 0 {
		return ""
	}
	f, ok := concStr(args[0])
	if !ok {
		return "<fmt>"
	}
	return f
}

// concreteSprintf evaluates fmt.Sprintf exactly when the format is constant, uses only the verbs d, s, q, x (with flags
// and widths) and every operand is a concrete integer or string; anything else stays opaque.
func (ex *Exec) concreteSprintf(format Value, variadic Value) (string, bool) {
	f, ok := concStr(format)
	if !ok {
		return "", false
	}
	sl, ok := variadic.(SliceV)
	if !ok {
		return "", false
	}
	verbs := 0
	for i := 0; i < len(f); i++ {
		if f[i] != '%' {
			continue
		}
		i++
		for i < len(f) && strings.ContainsRune("0123456789+-# .", rune(f[i])) {
			i++
		}
		if i >= len(f) {
			return "", false
		}
		if f[i] == '%' {
			continue
		}
		if !strings.ContainsRune("dsqx", rune(f[i])) {
			return "", false
		}
		verbs++
	}
	if verbs != sl.Len {
		return "", false
	}
	var ops []any
	for i := 0; i < sl.Len; i++ {
		v := ex.load(sl.Arr.Kids[sl.Off+i])
		iv, ok := v.(IfaceV)
		if !ok {
			return "", false
		}
		if bs, isSl := iv.V.(SliceV); isSl {
			b, okb := ex.concBytes(bs)
			if !okb {
				return "", false
			}
			ops = append(ops, b)
			continue
		}
		t, ok := iv.V.(*smt.Term)
		if !ok || !t.IsConst() {
			return "", false
		}
		if c, ok := concStr(t); ok && (t.Sort.K == smt.KStr || isOrd(t)) {
			ops = append(ops, c)
			continue
		}
		if n, ok := concInt(t); ok {
			ops = append(ops, n)
			continue
		}
		return "", false
	}
	return fmt.Sprintf(f, ops...), true
}

func init() {
	reg("google.golang.org/grpc/status.Error", func(ex *Exec, g *G, fn *ssa.Function, args []Value, done func(Value)) {
		code := codeTerm(ex, args[0])
		if c, ok := concInt(code); ok && c == 0 {
			done(IfaceV{})
			return
		}
		msg, _ := concStr(args[1])
		done(ex.errIface(&ErrObj{Kind: "status", Code: code, Msg: msg}))
	})
	reg("google.golang.org/grpc/status.Errorf", func(ex *Exec, g *G, fn *ssa.Function, args []Value, done func(Value)) {
		code := codeTerm(ex, args[0])
		if c, ok := concInt(code); ok && c == 0 {
			done(IfaceV{})
			return
		}
		done(ex.errIface(&ErrObj{Kind: "status", Code: code, Msg: ex.fmtString(args[1:])}))
	})
	reg("google.golang.org/grpc/status.Code", func(ex *Exec, g *G, fn *ssa.Function, args []Value, done func(Value)) {
		done(ex.statusCode(args[0]))
	})
	reg("google.golang.org/grpc/status.FromError", func(ex *Exec, g *G, fn *ssa.Function, args []Value, done func(Value)) {
		iv, _ := args[0].(IfaceV)
		if iv.T == nil && iv.V == nil {
			done(TupleV{Ptr{}, ex.boolC(true)})
			return
		}
		if e, ok := iv.V.(*ErrObj); ok && e.Kind == "status" {
			done(TupleV{&StatusObj{Code: e.Code, Msg: e.Msg}, ex.boolC(true)})
			return
		}
		msg := "<error>"
		if e, ok := iv.V.(*ErrObj); ok {
			msg = e.Msg
		}
		done(TupleV{&StatusObj{Code: ex.B.BVC(2, 32), Msg: msg}, ex.boolC(false)})
	})
	reg("google.golang.org/grpc/status.Convert", func(ex *Exec, g *G, fn *ssa.Function, args []Value, done func(Value)) {
		iv, _ := args[0].(IfaceV)
		if iv.T == nil && iv.V == nil {
			done(Ptr{})
			return
		}
		if e, ok := iv.V.(*ErrObj); ok && e.Kind == "status" {
			done(&StatusObj{Code: e.Code, Msg: e.Msg})
			return
		}
		done(&StatusObj{Code: ex.B.BVC(2, 32), Msg: "<error>"})
	})
	reg("(*google.golang.org/grpc/internal/status.Status).Code|(*google.golang.org/grpc/status.Status).Code", func(ex *Exec, g *G, fn *ssa.Function, args []Value, done func(Value)) {
		switch s := args[0].(type) {
		case *StatusObj:
			done(s.Code)
		default:
			done(ex.B.BVC(0, 32))
		}
	})
	reg("(*google.golang.org/grpc/internal/status.Status).Message", func(ex *Exec, g *G, fn *ssa.Function, args []Value, done func(Value)) {
		switch s := args[0].(type) {
		case *StatusObj:
			done(ex.strC(s.Msg))
		default:
			done(ex.strC(""))
		}
	})
	reg("(*google.golang.org/grpc/internal/status.Status).Err", func(ex *Exec, g *G, fn *ssa.Function, args []Value, done func(Value)) {
		switch s := args[0].(type) {
		case *StatusObj:
			if c, ok := concInt(s.Code); ok && c == 0 {
				done(IfaceV{})
				return
			}
			done(ex.errIface(&ErrObj{Kind: "status", Code: s.Code, Msg: s.Msg}))
		default:
			done(IfaceV{})
		}
	})
	reg("errors.New", func(ex *Exec, g *G, fn *ssa.Function, args []Value, done func(Value)) {
		msg, _ := concStr(args[0])
		done(ex.errIface(&ErrObj{Kind: "errors", Msg: msg}))
	})
	reg("fmt.Errorf", func(ex *Exec, g *G, fn *ssa.Function, args []Value, done func(Value)) {
		e := &ErrObj{Kind: "fmt", Msg: ex.fmtString(args)}
		// %w wrapping: remember the first error argument
		if len(args) > 1 {
			if sl, ok := args[1].(SliceV); ok {
				for i := 0; i < sl.Len; i++ {
					if iv, ok := ex.load(sl.Arr.Kids[sl.Off+i]).(IfaceV); ok {
						if inner, ok := iv.V.(IfaceV); ok {
							iv = inner
						}
						if _, ok := iv.V.(*ErrObj); ok && strings.Contains(e.Msg, "%w") {
							e.Wrap = iv
						}
					}
				}
			}
		}
		done(ex.errIface(e))
	})
	reg("errors.Is", func(ex *Exec, g *G, fn *ssa.Function, args []Value, done func(Value)) {
		cur, _ := args[0].(IfaceV)
		target, _ := args[1].(IfaceV)
		for depth := 0; depth < 8; depth++ {
			if cur.T == nil && cur.V == nil {
				done(ex.boolC(target.T == nil && target.V == nil))
				return
			}
			eq := ex.valuesEqual(cur, target)
			if ex.branch(eq) {
				done(ex.boolC(true))
				return
			}
			e, ok := cur.V.(*ErrObj)
			if !ok || e.Wrap == nil {
				break
			}
			cur = e.Wrap.(IfaceV)
		}
		done(ex.boolC(false))
	})
	// time.AfterFunc: the callback never runs within a harness (timers of this kind are not modelled; stated cut)
	reg("time.AfterFunc", func(ex *Exec, g *G, fn *ssa.Function, args []Value, done func(Value)) {
		done(Ptr{})
	})
	reg("crypto/md5.New", func(ex *Exec, g *G, fn *ssa.Function, args []Value, done func(Value)) {
		done(IfaceV{V: &HashObj{}})
	})
	reg("io.WriteString", func(ex *Exec, g *G, fn *ssa.Function, args []Value, done func(Value)) {
		iv, _ := args[0].(IfaceV)
		h, ok := iv.V.(*HashObj)
		if !ok {
			ex.unsupported("io.WriteString to a writer that is not the modelled hash")
		}
		ex.nativeMethod(g, h, "WriteString", args[1:], done)
	})
	reg("fmt.Sprintf|fmt.Sprint|fmt.Sprintln", func(ex *Exec, g *G, fn *ssa.Function, args []Value, done func(Value)) {
		if fn.Name() == "Sprintf" && len(args) == 2 {
			if out, ok := ex.concreteSprintf(args[0], args[1]); ok {
				done(ex.strC(out))
				return
			}
		}
		done(ex.strC("<fmt:" + ex.fmtString(args) + ">"))
	})
	reg("log.Printf|log.Println|log.Print|fmt.Printf|fmt.Println", func(ex *Exec, g *G, fn *ssa.Function, args []Value, done func(Value)) {
		if fn.Signature.Results().Len() == 2 {
			done(TupleV{ex.intC(0), IfaceV{}})
			return
		}
		done(nil)
	})

	// ---- context ----
	reg("context.Background|context.TODO", func(ex *Exec, g *G, fn *ssa.Function, args []Value, done func(Value)) {
		done(IfaceV{V: ex.newCtx(nil)})
	})
	reg("context.WithCancel", func(ex *Exec, g *G, fn *ssa.Function, args []Value, done func(Value)) {
		parent := ex.ctxOf(args[0])
		c := ex.newCtx(parent)
		done(TupleV{IfaceV{V: c}, ex.cancelFunc(c)})
	})
	reg("context.WithTimeout|context.WithDeadline", func(ex *Exec, g *G, fn *ssa.Function, args []Value, done func(Value)) {
		parent := ex.ctxOf(args[0])
		c := ex.newCtx(parent)
		c.timeout = true
		if !c.done.closed {
			ex.timers = append(ex.timers, c)
		}
		done(TupleV{IfaceV{V: c}, ex.cancelFunc(c)})
	})
	reg("context.WithValue", func(ex *Exec, g *G, fn *ssa.Function, args []Value, done func(Value)) {
		parent := ex.ctxOf(args[0])
		c := ex.newCtx(parent)
		c.keyV, c.valV = args[1], args[2]
		done(IfaceV{V: c})
	})

	// ---- sync ----
	reg("(*sync.Mutex).Lock|(*sync.RWMutex).Lock", func(ex *Exec, g *G, fn *ssa.Function, args []Value, done func(Value)) {
		m := ex.mutex(args[0])
		g.pending = &VisOp{Kind: "Lock", Simple: true, Obj: m,
			Enabled: func() bool { return !m.locked && m.readers == 0 },
			Fire: func() {
				m.locked = true
				m.owner = g.id
				if ex.race != nil {
					ex.race.acquire(g, m)
				}
				done(nil)
			}}
	})
	reg("(*sync.Mutex).Unlock|(*sync.RWMutex).Unlock", func(ex *Exec, g *G, fn *ssa.Function, args []Value, done func(Value)) {
		m := ex.mutex(args[0])
		g.pending = &VisOp{Kind: "Unlock", Simple: true, Obj: m, Fire: func() {
			if !m.locked {
				g.panic = &panicState{msg: "fatal error: sync: unlock of unlocked mutex", fatal: true}
				return
			}
			m.locked = false
			if ex.race != nil {
				ex.race.release(g, m)
			}
			done(nil)
		}}
	})
	reg("(*sync.RWMutex).RLock", func(ex *Exec, g *G, fn *ssa.Function, args []Value, done func(Value)) {
		m := ex.mutex(args[0])
		g.pending = &VisOp{Kind: "RLock", Simple: true, Obj: m,
			// Go's RWMutex blocks new readers once a writer waits. That only changes behaviour for a goroutine that
			// already holds a read lock (recursive read locking, which sync prohibits): it deadlocks with the writer.
			// A recursive RLock is therefore disabled while another goroutine's next step is Lock on the same mutex.
			Enabled: func() bool { return !m.locked && !(m.rhold[g.id] > 0 && ex.writerWaits(m, g)) },
			Fire: func() {
				m.readers++
				if m.rhold == nil {
					m.rhold = map[int]int{}
				}
				m.rhold[g.id]++
				if ex.race != nil {
					ex.race.acquire(g, m)
				}
				done(nil)
			}}
	})
	reg("(*sync.RWMutex).RUnlock", func(ex *Exec, g *G, fn *ssa.Function, args []Value, done func(Value)) {
		m := ex.mutex(args[0])
		g.pending = &VisOp{Kind: "RUnlock", Simple: true, Obj: m, Fire: func() {
			if m.readers <= 0 {
				g.panic = &panicState{msg: "fatal error: sync: RUnlock of unlocked RWMutex", fatal: true}
				return
			}
			m.readers--
			if m.rhold[g.id] > 0 {
				m.rhold[g.id]--
			}
			if ex.race != nil {
				ex.race.releaseRead(g, m)
			}
			done(nil)
		}}
	})
	reg("(*sync.Mutex).TryLock", func(ex *Exec, g *G, fn *ssa.Function, args []Value, done func(Value)) {
		m := ex.mutex(args[0])
		g.pending = &VisOp{Kind: "TryLock", Simple: true, Obj: m, Fire: func() {
			if m.locked || m.readers > 0 {
				done(ex.boolC(false))
				return
			}
			m.locked = true
			done(ex.boolC(true))
		}}
	})
	reg("(*sync.WaitGroup).Add", func(ex *Exec, g *G, fn *ssa.Function, args []Value, done func(Value)) {
		w := ex.wg(args[0])
		n, ok := concInt(args[1])
		if !ok {
			ex.unsupported("symbolic WaitGroup.Add")
		}
		g.pending = &VisOp{Kind: "wg.Add", Simple: true, Obj: w, Fire: func() {
			w.n += n
			if w.n < 0 {
				ex.goPanic(g, nil, "sync: negative WaitGroup counter")
				return
			}
			if ex.race != nil {
				ex.race.release(g, w)
			}
			done(nil)
		}}
	})
	reg("(*sync.WaitGroup).Done", func(ex *Exec, g *G, fn *ssa.Function, args []Value, done func(Value)) {
		w := ex.wg(args[0])
		g.pending = &VisOp{Kind: "wg.Done", Simple: true, Obj: w, Fire: func() {
			w.n--
			if w.n < 0 {
				ex.goPanic(g, nil, "sync: negative WaitGroup counter")
				return
			}
			if ex.race != nil {
				ex.race.release(g, w)
			}
			done(nil)
		}}
	})
	reg("(*sync.WaitGroup).Wait", func(ex *Exec, g *G, fn *ssa.Function, args []Value, done func(Value)) {
		w := ex.wg(args[0])
		g.pending = &VisOp{Kind: "wg.Wait", Simple: true, Obj: w,
			Enabled: func() bool { return w.n == 0 },
			Fire: func() {
				if ex.race != nil {
					ex.race.acquire(g, w)
				}
				done(nil)
			}}
	})

	// ---- sort ----
	// slices.overlaps compares uintptr(unsafe.Pointer(..)) ranges; in the heap model two slices overlap exactly when
	// they view the same array object and their index ranges intersect.
	reg("slices.overlaps", func(ex *Exec, g *G, fn *ssa.Function, args []Value, done func(Value)) {
		a, _ := args[0].(SliceV)
		b, _ := args[1].(SliceV)
		if a.Len == 0 || b.Len == 0 || a.Arr == nil || b.Arr == nil || a.Arr != b.Arr {
			done(ex.boolC(false))
			return
		}
		if ex.E.Sizes.Sizeof(fn.Signature.Params().At(0).Type().Underlying().(*types.Slice).Elem()) == 0 {
			done(ex.boolC(false))
			return
		}
		done(ex.boolC(a.Off <= b.Off+b.Len-1 && b.Off <= a.Off+a.Len-1))
	})
	reg("sort.Slice|sort.SliceStable", func(ex *Exec, g *G, fn *ssa.Function, args []Value, done func(Value)) {
		iv := args[0].(IfaceV)
		sl := iv.V.(SliceV)
		ex.sortSlice(g, sl, args[1], fn.Name() == "SliceStable")
		done(nil)
	})
	reg("sort.Strings", func(ex *Exec, g *G, fn *ssa.Function, args []Value, done func(Value)) {
		sl := args[0].(SliceV)
		ex.sortGeneric(g, sl, func(a, b Value) *smt.Term {
			x, y := termOf(a), termOf(b)
			if isOrd(x) || isOrd(y) {
				x, y = ex.ordPair(x, y)
				return ex.B.Ult(x, y)
			}
			return ex.B.StrLt(x, y)
		}, false)
		done(nil)
	})
	reg("sort.SliceIsSorted", func(ex *Exec, g *G, fn *ssa.Function, args []Value, done func(Value)) {
		iv := args[0].(IfaceV)
		sl := iv.V.(SliceV)
		res := ex.B.True()
		for i := sl.Len - 1; i > 0; i-- {
			lt := termOf(ex.callSync(g, args[1], []Value{ex.intC(i), ex.intC(i - 1)}))
			res = ex.B.And(res, ex.B.Not(lt))
		}
		done(res)
	})

	// ---- math ----
	reg("math.Abs", func(ex *Exec, g *G, fn *ssa.Function, args []Value, done func(Value)) {
		done(ex.B.FUn(smt.OFAbs, termOf(args[0])))
	})
	reg("math.IsNaN", func(ex *Exec, g *G, fn *ssa.Function, args []Value, done func(Value)) {
		done(ex.B.FUn(smt.OFIsNaN, termOf(args[0])))
	})
	reg("math.IsInf", func(ex *Exec, g *G, fn *ssa.Function, args []Value, done func(Value)) {
		x := termOf(args[0])
		sign, ok := concInt(args[1])
		if !ok {
			ex.unsupported("math.IsInf with symbolic sign")
		}
		inf := ex.B.FUn(smt.OFIsInf, x)
		zero := ex.B.F64C(0)
		switch {
		case sign > 0:
			done(ex.B.And(inf, ex.B.FCmp(smt.OFLt, zero, x)))
		case sign < 0:
			done(ex.B.And(inf, ex.B.FCmp(smt.OFLt, x, zero)))
		default:
			done(inf)
		}
	})
	reg("math.Inf", func(ex *Exec, g *G, fn *ssa.Function, args []Value, done func(Value)) {
		sign, ok := concInt(args[0])
		if !ok {
			ex.unsupported("math.Inf with symbolic sign")
		}
		if sign >= 0 {
			done(ex.f64C(math.Inf(1)))
		} else {
			done(ex.f64C(math.Inf(-1)))
		}
	})
	reg("math.NaN", func(ex *Exec, g *G, fn *ssa.Function, args []Value, done func(Value)) {
		done(ex.f64C(math.NaN()))
	})
	reg("math.Max|math.Min", func(ex *Exec, g *G, fn *ssa.Function, args []Value, done func(Value)) {
		x, y := termOf(args[0]), termOf(args[1])
		B := ex.B
		// Go's math.Min/Max are commutative (NaN if either is NaN; -0 < +0): evaluate in a canonical argument order
		if x.ID > y.ID {
			x, y = y, x
		}
		nan := B.Or(B.FUn(smt.OFIsNaN, x), B.FUn(smt.OFIsNaN, y))
		zero := B.F64C(0)
		bothZero := B.And(B.FCmp(smt.OFEq, x, zero), B.FCmp(smt.OFEq, y, zero))
		xneg, yneg := B.FUn(smt.OFIsNeg, x), B.FUn(smt.OFIsNeg, y)
		var r, z *smt.Term
		if fn.Name() == "Max" {
			r = B.Ite(B.FCmp(smt.OFLt, x, y), y, x)
			z = B.Ite(B.And(xneg, yneg), B.F64C(math.Copysign(0, -1)), zero)
		} else {
			r = B.Ite(B.FCmp(smt.OFLt, y, x), y, x)
			z = B.Ite(B.Or(xneg, yneg), B.F64C(math.Copysign(0, -1)), zero)
		}
		done(B.Ite(nan, B.F64C(math.NaN()), B.Ite(bothZero, z, r)))
	})
	reg("math.Floor", func(ex *Exec, g *G, fn *ssa.Function, args []Value, done func(Value)) {
		x := termOf(args[0])
		if x.IsConst() {
			done(ex.f64C(math.Floor(math.Float64frombits(x.U))))
			return
		}
		ex.unsupported("math.Floor of symbolic value")
	})
	reg("math.Float64bits", func(ex *Exec, g *G, fn *ssa.Function, args []Value, done func(Value)) {
		done(ex.B.FToBits(termOf(args[0])))
	})
	reg("math.Float64frombits|math.Float32frombits", func(ex *Exec, g *G, fn *ssa.Function, args []Value, done func(Value)) {
		done(ex.B.FFromBits(termOf(args[0])))
	})
	reg("math.Float32bits", func(ex *Exec, g *G, fn *ssa.Function, args []Value, done func(Value)) {
		done(ex.B.FToBits(termOf(args[0])))
	})

	// resource.timeoutAlarm only logs when an update takes longer than a second: replaced by a no-op disarm function
	reg("github.com/smart-core-os/sc-golang/pkg/resource.timeoutAlarm", func(ex *Exec, g *G, fn *ssa.Function, args []Value, done func(Value)) {
		done(FuncV{Native: &NativeFn{Name: "disarm", Call: func(ex *Exec, g *G, args []Value) Value { return nil }}})
	})

	// ---- math/rand: an opaque source of arbitrary bytes ----
	reg("math/rand.NewSource", func(ex *Exec, g *G, fn *ssa.Function, args []Value, done func(Value)) {
		done(IfaceV{V: &RngObj{}})
	})
	reg("math/rand.Int63|math/rand.Int|math/rand.Uint64|(*math/rand.Rand).Int63|(*math/rand.Rand).Int|(*math/rand.Rand).Uint64", func(ex *Exec, g *G, fn *ssa.Function, args []Value, done func(Value)) {
		v := ex.input("rand", "int64", smt.BV(64))
		if fn.Name() != "Uint64" {
			ex.assume(ex.B.Sle(ex.B.BVC(0, 64), v))
		}
		done(v)
	})
	reg("math/rand.Int31|math/rand.Int31n|math/rand.Intn|(*math/rand.Rand).Intn|(*math/rand.Rand).Int31n", func(ex *Exec, g *G, fn *ssa.Function, args []Value, done func(Value)) {
		ex.unsupported("math/rand bounded integers")
	})
	reg("math/rand.Float32|(*math/rand.Rand).Float32", func(ex *Exec, g *G, fn *ssa.Function, args []Value, done func(Value)) {
		f := ex.input("randf", "float32", smt.F32)
		ex.assume(ex.B.And(ex.B.FCmp(smt.OFLe, ex.B.F32C(0), f), ex.B.FCmp(smt.OFLt, f, ex.B.F32C(1))))
		done(f)
	})
	reg("math/rand.New", func(ex *Exec, g *G, fn *ssa.Function, args []Value, done func(Value)) {
		t := fn.Signature.Results().At(0).Type().(*types.Pointer).Elem()
		l := &Loc{T: t, V: &RngObj{}}
		ex.nloc++
		l.ID = ex.nloc
		done(Ptr{l})
	})
	reg("(*math/rand.Rand).Read", func(ex *Exec, g *G, fn *ssa.Function, args []Value, done func(Value)) {
		p, _ := args[0].(Ptr)
		if p.L != nil {
			ex.noteAccess(p.L, true) // reading random bytes mutates the generator
		}
		sl := args[1].(SliceV)
		for i := 0; i < sl.Len; i++ {
			ex.store(sl.Arr.Kids[sl.Off+i], ex.input("rng", "uint8", smt.BV(8)))
		}
		done(TupleV{ex.intC(sl.Len), IfaceV{}})
	})
	// ---- page-token codec: proto.Marshal/Unmarshal + base64 as an inverse pair over a tagged ordinal ----
	reg("google.golang.org/protobuf/proto.Marshal", func(ex *Exec, g *G, fn *ssa.Function, args []Value, done func(Value)) {
		m, ok := ex.prMsgOf(args[0])
		if !ok || m.L == nil {
			ex.unsupported("proto.Marshal of a non-message / nil message")
		}
		done(TupleV{&MarshalledMsg{M: ex.pbCloneMsg(m)}, IfaceV{}})
	})
	reg("google.golang.org/protobuf/proto.Unmarshal", func(ex *Exec, g *G, fn *ssa.Function, args []Value, done func(Value)) {
		mm, ok := args[0].(*MarshalledMsg)
		if !ok {
			ex.unsupported("proto.Unmarshal of bytes that do not come from the modelled codec")
		}
		dst, ok2 := ex.prMsgOf(args[1])
		if !ok2 || dst.Info != mm.M.Info {
			done(ex.errIface(&ErrObj{Kind: "errors", Msg: "proto: cannot parse invalid wire-format data"}))
			return
		}
		ex.pbReset(dst)
		ex.guardPB(g, func() { ex.pbMerge(dst, mm.M) })
		done(IfaceV{})
	})
	reg("(*encoding/base64.Encoding).DecodeString", func(ex *Exec, g *G, fn *ssa.Function, args []Value, done func(Value)) {
		t := termOf(args[1])
		B := ex.B
		bad := func() { done(TupleV{SliceV{}, ex.errIface(&ErrObj{Kind: "errors", Msg: "illegal base64 data"})}) }
		if !isOrd(t) {
			sv, okc := concStr(t)
			if !okc {
				ex.unsupported("base64 decode of a symbolic non-ordinal string")
			}
			// a token the modelled codec produced for a concrete (non-ordinal) key
			for _, e := range ex.tokenTable {
				if e.tok == t {
					done(TupleV{e.mm, IfaceV{}})
					return
				}
			}
			if _, err := base64.StdEncoding.DecodeString(sv); err != nil {
				bad()
				return
			}
			ex.unsupported("base64 decode of a well-formed constant (not produced by the modelled codec)")
		}
		// a token produced by the modelled EncodeToString has tag bit 60 set and carries the key in the low bits
		tag := B.Extract(t, 60, 60)
		if !ex.branch(B.Eq(tag, B.BVC(1, 1))) {
			bad()
			return
		}
		key := B.BAnd(t, B.BVC((uint64(1)<<59)-1, OrdW))
		for _, e := range ex.tokenTable {
			if e.tok == t {
				done(TupleV{e.mm, IfaceV{}})
				return
			}
		}
		// a token not produced in this run: it decodes to a page token naming an arbitrary key
		info := ex.pageTokenInfo()
		if info == nil {
			bad()
			return
		}
		m := ex.newMsg(info)
		f := info.byName["last_resource_name"]
		ex.pbSet(m, f, &PRVal{Kind: "string", T: key})
		done(TupleV{&MarshalledMsg{M: m}, IfaceV{}})
	})
	reg("(*encoding/base64.Encoding).EncodeToString", func(ex *Exec, g *G, fn *ssa.Function, args []Value, done func(Value)) {
		if mm, ok := args[1].(*MarshalledMsg); ok {
			f := mm.M.Info.byName["last_resource_name"]
			if f == nil {
				ex.unsupported("modelled codec only encodes types.PageToken")
			}
			B := ex.B
			key := ex.pbGet(mm.M, f).T
			if !isOrd(key) {
				if c, okc := concStr(key); okc {
					k, okp := parseOrd(c)
					if !okp {
						// a concrete key that is not an ordinal: a concrete token, injective in the key
						tok := ex.strC("vt-page-token:" + c)
						ex.tokenTable = append(ex.tokenTable, tokenEntry{tok: tok, mm: mm})
						done(tok)
						return
					}
					key = B.BVC(k, OrdW)
				} else {
					ex.unsupported("page token for a symbolic non-ordinal key")
				}
			}
			// keys are assumed < 2^59 by the harness; the tag bit marks well-formed tokens
			tok := B.BOr(B.BAnd(key, B.BVC((uint64(1)<<59)-1, OrdW)), B.BVC(uint64(1)<<60, OrdW))
			ex.tokenTable = append(ex.tokenTable, tokenEntry{tok: tok, mm: mm})
			done(tok)
			return
		}
		// injective function of the byte string: modelled by an ordinal string built from (a hash-free) pairing of the
		// first bytes; collisions between distinct inputs are excluded by construction for inputs of equal length <= 7
		sl := args[1].(SliceV)
		if sl.Len == 0 {
			done(ex.strC(""))
			return
		}
		B := ex.B
		acc := B.BVC(1, OrdW) // never the empty string
		n := sl.Len
		if n > 7 {
			n = 7 // 7*8 = 56 bits + marker fit in 61 bits; longer inputs share the prefix (sound for "may collide")
		}
		for i := 0; i < n; i++ {
			acc = B.BOr(B.Shl(acc, B.BVC(8, OrdW)), B.Zext(termOf(ex.load(sl.Arr.Kids[sl.Off+i])), OrdW))
		}
		done(acc)
	})

	// ---- strings: generic concrete call-through for pure functions ----
	for name, f := range map[string]any{
		"strings.IndexByte": strings.IndexByte, "strings.TrimPrefix": strings.TrimPrefix, "strings.TrimSuffix": strings.TrimSuffix,
		"strings.HasSuffix": strings.HasSuffix, "strings.Contains": strings.Contains, "strings.Count": strings.Count,
		"strings.Compare": strings.Compare, "strings.EqualFold": strings.EqualFold, "strings.ReplaceAll": strings.ReplaceAll,
		"strings.Repeat": strings.Repeat, "strings.IndexRune": strings.IndexRune, "strings.ContainsRune": strings.ContainsRune,
		"strings.Join": strings.Join, "strings.Fields": strings.Fields, "strings.SplitN": strings.SplitN, "strings.Title": strings.Title,
		"strings.Trim": strings.Trim, "strings.TrimLeft": strings.TrimLeft, "strings.TrimRight": strings.TrimRight,
		"strconv.Quote": strconv.Quote, "strconv.FormatInt": strconv.FormatInt,
		"strings.Cut": strings.Cut, "strings.CutPrefix": strings.CutPrefix, "strings.CutSuffix": strings.CutSuffix,
		"strings.LastIndexByte": strings.LastIndexByte, "strings.IndexAny": strings.IndexAny, "strings.ContainsAny": strings.ContainsAny,
		"strings.SplitAfter": strings.SplitAfter, "strings.ToTitle": strings.ToTitle, "strings.Replace": strings.Replace,
	} {
		f := f
		name := name
		reg(name, func(ex *Exec, g *G, fn *ssa.Function, args []Value, done func(Value)) {
			done(ex.callNative(name, f, fn, args))
		})
	}

	// ---- strings / strconv: concrete call-through ----
	reg("strings.HasPrefix", func(ex *Exec, g *G, fn *ssa.Function, args []Value, done func(Value)) {
		a, ok1 := concStr(args[0])
		b, ok2 := concStr(args[1])
		if !ok1 || !ok2 {
			ex.unsupported("strings.HasPrefix on symbolic string")
		}
		done(ex.boolC(strings.HasPrefix(a, b)))
	})
	reg("strings.LastIndex|strings.Index", func(ex *Exec, g *G, fn *ssa.Function, args []Value, done func(Value)) {
		a, ok1 := concStr(args[0])
		b, ok2 := concStr(args[1])
		if !ok1 || !ok2 {
			ex.unsupported(fn.Name() + " on symbolic string")
		}
		if fn.Name() == "Index" {
			done(ex.intC(strings.Index(a, b)))
		} else {
			done(ex.intC(strings.LastIndex(a, b)))
		}
	})
	reg("strings.Split", func(ex *Exec, g *G, fn *ssa.Function, args []Value, done func(Value)) {
		a, ok1 := concStr(args[0])
		b, ok2 := concStr(args[1])
		if !ok1 || !ok2 {
			ex.unsupported("strings.Split on symbolic string")
		}
		done(ex.strSlice(fn.Signature.Results().At(0).Type(), strings.Split(a, b)))
	})
	reg("strings.ToLower|strings.ToUpper|strings.TrimSpace", func(ex *Exec, g *G, fn *ssa.Function, args []Value, done func(Value)) {
		if t, isT := args[0].(*smt.Term); isT && isOrd(t) && !t.IsConst() && fn.Name() != "ToUpper" {
			// ordinal strings stand for "" or 16 lower-case hex digits (what the native replay passes): already
			// lower-case and free of spaces. Strings with upper-case letters are covered by concrete-name harnesses.
			done(t)
			return
		}
		a, ok1 := concStr(args[0])
		if !ok1 {
			ex.unsupported(fn.Name() + " on symbolic string")
		}
		switch fn.Name() {
		case "ToLower":
			done(ex.strC(strings.ToLower(a)))
		case "ToUpper":
			done(ex.strC(strings.ToUpper(a)))
		default:
			done(ex.strC(strings.TrimSpace(a)))
		}
	})
	reg("strconv.Itoa", func(ex *Exec, g *G, fn *ssa.Function, args []Value, done func(Value)) {
		if i, ok := concInt(args[0]); ok {
			done(ex.strC(strconv.Itoa(i)))
			return
		}
		// symbolic: injective encoding through a ghost table
		done(ex.itoaSym(termOf(args[0])))
	})
	reg("strconv.Atoi", func(ex *Exec, g *G, fn *ssa.Function, args []Value, done func(Value)) {
		if s, ok := concStr(args[0]); ok {
			i, err := strconv.Atoi(s)
			if err != nil {
				done(TupleV{ex.intC(0), ex.errIface(&ErrObj{Kind: "errors", Msg: "strconv.Atoi: parsing: invalid syntax"})})
				return
			}
			done(TupleV{ex.intC(i), IfaceV{}})
			return
		}
		done(ex.atoiSym(termOf(args[0])))
	})
}

func (ex *Exec) strSlice(t types.Type, ss []string) Value {
	et := t.Underlying().(*types.Slice).Elem()
	arr := ex.newArrayLoc(et, len(ss))
	for i, s := range ss {
		arr.Kids[i].V = ex.strC(s)
	}
	return SliceV{Arr: arr, Len: len(ss), Cap: len(ss)}
}

func (ex *Exec) statusCode(v Value) *smt.Term {
	iv, _ := v.(IfaceV)
	if iv.T == nil && iv.V == nil {
		return ex.B.BVC(0, 32)
	}
	if e, ok := iv.V.(*ErrObj); ok && e.Kind == "status" {
		return e.Code
	}
	return ex.B.BVC(2, 32) // codes.Unknown
}

// ---- context helpers ----

func (ex *Exec) newCtx(parent *CtxObj) *CtxObj {
	ex.nobj++
	c := &CtxObj{parent: parent, id: ex.nobj, done: ex.newChan(0, types.NewStruct(nil, nil))}
	if parent != nil {
		parent.children = append(parent.children, c)
		if parent.done.closed {
			c.done.closed = true
			c.err = parent.err
		}
	}
	return c
}

func (ex *Exec) ctxOf(v Value) *CtxObj {
	iv, _ := v.(IfaceV)
	c, ok := iv.V.(*CtxObj)
	if !ok {
		ex.unsupported(fmt.Sprintf("context implementation %T", iv.V))
	}
	return c
}

func (ex *Exec) canceledErr() Value {
	return ex.load(ex.dependencyGlobal("context", "Canceled"))
}
func (ex *Exec) deadlineErr() Value {
	return ex.load(ex.dependencyGlobal("context", "DeadlineExceeded"))
}

func (ex *Exec) cancelCtx(g *G, c *CtxObj, err Value) {
	if c.done.closed {
		return
	}
	c.done.closed = true
	c.err = err
	if ex.race != nil && g != nil {
		ex.race.release(g, c.done)
	}
	for _, ch := range c.children {
		ex.cancelCtx(g, ch, err)
	}
}

func (ex *Exec) cancelFunc(c *CtxObj) Value {
	return FuncV{Native: &NativeFn{Name: "cancel", Visible: true, Objs: func() []int { return ctxTreeIDs(c) }, Call: func(ex *Exec, g *G, args []Value) Value {
		ex.cancelCtx(g, c, ex.canceledErr())
		return nil
	}}}
}

func ctxTreeIDs(c *CtxObj) []int {
	ids := []int{c.done.id}
	for _, ch := range c.children {
		ids = append(ids, ctxTreeIDs(ch)...)
	}
	return ids
}

// writerWaits: some other goroutine's next step is Lock on m.
func (ex *Exec) writerWaits(m *mutexState, self *G) bool {
	for _, o := range ex.gs {
		if o != self && !o.done && o.pending != nil && o.pending.Kind == "Lock" && o.pending.Obj == any(m) {
			return true
		}
	}
	return false
}

func (ex *Exec) mutex(v Value) *mutexState {
	p := v.(Ptr)
	if p.L == nil {
		ex.unsupported("lock of nil mutex")
	}
	m, ok := ex.mutexes[p.L]
	if !ok {
		ex.nobj++
		m = &mutexState{id: ex.nobj}
		ex.mutexes[p.L] = m
	}
	return m
}

func (ex *Exec) wg(v Value) *wgState {
	p := v.(Ptr)
	w, ok := ex.wgs[p.L]
	if !ok {
		ex.nobj++
		w = &wgState{id: ex.nobj}
		ex.wgs[p.L] = w
	}
	return w
}

// ---- sorting ----

// sortSlice sorts sl with the interpreted less(i,j) closure.  Every
// permutation that is sorted w.r.t. less is explored (ties fork), which covers
// all behaviours of the unstable real sort.Slice.
func (ex *Exec) sortSlice(g *G, sl SliceV, less Value, stable bool) {
	n := sl.Len
	symbolicCmp := false
	// insertion sort working on the real backing array so that less(i,j) sees current contents
	for i := 1; i < n; i++ {
		for j := i; j > 0; j-- {
			lt := termOf(ex.callSync(g, less, []Value{ex.intC(j), ex.intC(j - 1)}))
			if !lt.IsConst() {
				symbolicCmp = true
			}
			if symbolicCmp && n > 8 {
				ex.unsupported("sort.Slice of more than 8 elements with symbolic comparisons")
			}
			swap := false
			if ex.branch(lt) {
				swap = true
			} else if !stable {
				gt := termOf(ex.callSync(g, less, []Value{ex.intC(j - 1), ex.intC(j)}))
				if !ex.branch(gt) {
					// tie: either order is a legal outcome
					if ex.choose("sort-tie", 2, func(int) *smt.Term { return nil }) == 1 {
						swap = true
					}
				}
			}
			if !swap {
				break
			}
			a, b := sl.Arr.Kids[sl.Off+j], sl.Arr.Kids[sl.Off+j-1]
			va, vb := ex.load(a), ex.load(b)
			ex.store(a, vb)
			ex.store(b, va)
		}
	}
}

func (ex *Exec) sortGeneric(g *G, sl SliceV, lt func(a, b Value) *smt.Term, stable bool) {
	n := sl.Len
	for i := 1; i < n; i++ {
		for j := i; j > 0; j-- {
			a, b := sl.Arr.Kids[sl.Off+j], sl.Arr.Kids[sl.Off+j-1]
			va, vb := ex.load(a), ex.load(b)
			if !ex.branch(lt(va, vb)) {
				break
			}
			ex.store(a, vb)
			ex.store(b, va)
		}
	}
}

// ---- itoa/atoi ghost codec ----

type ufApp struct {
	args []*smt.Term
	res  *smt.Term
}

func (ex *Exec) itoaSym(i *smt.Term) *smt.Term {
	// result is a fresh string constrained to be an injective image; decoding is through atoiSym
	for _, a := range ex.ufApps["itoa"] {
		if a.args[0] == i {
			return a.res
		}
	}
	s := ex.B.Var(ex.uniq("itoa!"), smt.Str)
	for _, a := range ex.ufApps["itoa"] {
		ex.assume(ex.B.Eq(ex.B.Eq(a.args[0], i), ex.B.Eq(a.res, s)))
	}
	ex.assume(ex.B.Not(ex.B.Eq(s, ex.B.StrC(""))))
	ex.ufApps["itoa"] = append(ex.ufApps["itoa"], ufApp{args: []*smt.Term{i}, res: s})
	return s
}

func (ex *Exec) atoiSym(s *smt.Term) Value {
	for _, a := range ex.ufApps["itoa"] {
		if ex.branch(ex.B.Eq(a.res, s)) {
			return TupleV{a.args[0], IfaceV{}}
		}
	}
	// either malformed, or some other number: both are explored
	if ex.choose("atoi", 2, func(int) *smt.Term { return nil }) == 0 {
		return TupleV{ex.intC(0), ex.errIface(&ErrObj{Kind: "errors", Msg: "strconv.Atoi: invalid syntax"})}
	}
	v := ex.input("atoi", "int", smt.BV(64))
	ex.ufApps["itoa"] = append(ex.ufApps["itoa"], ufApp{args: []*smt.Term{v}, res: s})
	return TupleV{v, IfaceV{}}
}

// callNative runs a pure Go function on concrete arguments.
func (ex *Exec) callNative(name string, f any, fn *ssa.Function, args []Value) Value {
	rf := reflect.ValueOf(f)
	rt := rf.Type()
	in := make([]reflect.Value, len(args))
	for i, a := range args {
		pt := rt.In(i)
		switch pt.Kind() {
		case reflect.String:
			s, ok := concStr(a)
			if !ok {
				ex.unsupported(name + " on a symbolic string")
			}
			in[i] = reflect.ValueOf(s)
		case reflect.Int, reflect.Int64, reflect.Int32, reflect.Uint8:
			v, ok := concInt(a)
			if !ok {
				ex.unsupported(name + " on a symbolic integer")
			}
			in[i] = reflect.ValueOf(v).Convert(pt)
		case reflect.Slice:
			sl, _ := a.(SliceV)
			ss := make([]string, sl.Len)
			for j := 0; j < sl.Len; j++ {
				s, ok := concStr(ex.load(sl.Arr.Kids[sl.Off+j]))
				if !ok {
					ex.unsupported(name + " on symbolic strings")
				}
				ss[j] = s
			}
			in[i] = reflect.ValueOf(ss)
		default:
			ex.unsupported(name + ": argument kind " + pt.Kind().String())
		}
	}
	out := rf.Call(in)
	conv := func(v reflect.Value, t types.Type) Value {
		switch v.Kind() {
		case reflect.String:
			return ex.strC(v.String())
		case reflect.Bool:
			return ex.boolC(v.Bool())
		case reflect.Int, reflect.Int64:
			return ex.intC(int(v.Int()))
		case reflect.Slice:
			return ex.strSlice(t, v.Interface().([]string))
		}
		ex.unsupported(name + ": result kind " + v.Kind().String())
		return nil
	}
	res := fn.Signature.Results()
	if len(out) == 1 {
		return conv(out[0], res.At(0).Type())
	}
	tv := make(TupleV, len(out))
	for i := range out {
		tv[i] = conv(out[i], res.At(i).Type())
	}
	return tv
}

// concBytes returns the contents of a []byte value when every element is concrete (a nil slice is empty).
func (ex *Exec) concBytes(v Value) ([]byte, bool) {
	sv, ok := v.(SliceV)
	if !ok {
		return nil, false
	}
	var out []byte
	for i := 0; i < sv.Len; i++ {
		c, okc := concInt(ex.load(sv.Arr.Kids[sv.Off+i]))
		if !okc {
			return nil, false
		}
		out = append(out, byte(c))
	}
	return out, true
}

// byteSlice builds a fresh []byte value holding b.
func (ex *Exec) byteSlice(b []byte) Value {
	arr := ex.newArrayLoc(types.Typ[types.Uint8], len(b))
	for i, c := range b {
		arr.Kids[i].V = ex.B.BVC(uint64(c), 8)
	}
	return SliceV{Arr: arr, Len: len(b), Cap: len(b)}
}
