package sym

import (
	"go/types"

	"verif/engine/smt"
)

func (ex *Exec) timeType() types.Type {
	p := ex.E.Prog.ImportedPackage("time")
	if p == nil {
		ex.unsupported("package time not loaded")
	}
	return p.Type("Time").Type()
}

// mkTime builds a time.Time value carrying ns (nanoseconds since the Unix epoch) as a ghost:
// wall = 1 (set), ext = ns, loc = nil.  The zero Time is wall=0, ext=0.
func (ex *Exec) mkTime(ns *smt.Term) Value {
	return StructV{F: []Value{ex.B.BVC(1, 64), ns, Ptr{}}}
}
