package sym

// Models of time.Time, time.Duration, durationpb and timestamppb.
//
// time.Time is carried as its real struct shape {wall, ext, loc} but with a ghost
// encoding: wall = 1 marks a set instant, ext = nanoseconds since the Unix epoch;
// the zero Time is {0,0,nil}.  Every time.Time method the code under test uses is
// an intrinsic; any other function of package time is un-modelled (inconclusive).
// durationpb.New / timestamppb.New attach the exact nanosecond value as a ghost to
// the created message so that AsDuration / AsTime return it without dividing or
// multiplying by 1e9 (which no back end decides).

import (
	"go/types"

	"golang.org/x/tools/go/ssa"

	"verif/engine/smt"
)

func (ex *Exec) timeType() types.Type {
	p := ex.E.Prog.ImportedPackage("time")
	if p == nil {
		ex.unsupported("package time not loaded")
	}
	return p.Type("Time").Type()
}

func (ex *Exec) mkTime(ns *smt.Term) Value {
	return StructV{F: []Value{ex.B.BVC(1, 64), ns, Ptr{}}}
}

func (ex *Exec) timeParts(v Value) (set, ns *smt.Term) {
	sv, ok := v.(StructV)
	if !ok || len(sv.F) != 3 {
		ex.unsupported("time.Time value of unexpected shape")
	}
	return termOf(sv.F[0]), termOf(sv.F[1])
}

const nsPerSec = 1000000000

func (ex *Exec) setGhostNS(l *Loc, ns *smt.Term) {
	if l.Ghost == nil {
		l.Ghost = map[string]Value{}
	}
	l.Ghost["ns"] = ns
}

func ghostNS(l *Loc) (*smt.Term, bool) {
	if l == nil || l.Ghost == nil {
		return nil, false
	}
	v, ok := l.Ghost["ns"]
	if !ok {
		return nil, false
	}
	return v.(*smt.Term), true
}

func init() {
	tm := "(time.Time)."
	reg("time.Now", func(ex *Exec, g *G, fn *ssa.Function, args []Value, done func(Value)) {
		B := ex.B
		ns := ex.input("time.Now", "int64", smt.BV(64))
		lim := uint64(1) << 62
		ex.assumeNoCheck(B.And(B.Slt(B.BVC(-lim, 64), ns), B.Slt(ns, B.BVC(lim, 64))))
		if ex.clockLast != nil {
			ex.assumeNoCheck(B.Sle(ex.clockLast, ns)) // clockLast is itself below the limit: always satisfiable
		}
		ex.clockLast = ns
		done(ex.mkTime(ns))
	})
	reg("time.Unix", func(ex *Exec, g *G, fn *ssa.Function, args []Value, done func(Value)) {
		B := ex.B
		ns := B.Add(B.Mul(termOf(args[0]), B.BVC(nsPerSec, 64)), termOf(args[1]))
		done(ex.mkTime(ns))
	})
	reg("time.UnixMilli", func(ex *Exec, g *G, fn *ssa.Function, args []Value, done func(Value)) {
		done(ex.mkTime(ex.B.Mul(termOf(args[0]), ex.B.BVC(1000000, 64))))
	})
	reg("time.Since", func(ex *Exec, g *G, fn *ssa.Function, args []Value, done func(Value)) {
		ex.unsupported("time.Since")
	})
	cmpOrder := func(ex *Exec, a, b Value) (lt, eq *smt.Term) {
		B := ex.B
		sa, na := ex.timeParts(a)
		sb, nb := ex.timeParts(b)
		lt = B.Ite(B.Eq(sa, sb), B.Slt(na, nb), B.Ult(sa, sb))
		eq = B.And(B.Eq(sa, sb), B.Eq(na, nb))
		return
	}
	reg(tm+"Before", func(ex *Exec, g *G, fn *ssa.Function, args []Value, done func(Value)) {
		lt, _ := cmpOrder(ex, args[0], args[1])
		done(lt)
	})
	reg(tm+"After", func(ex *Exec, g *G, fn *ssa.Function, args []Value, done func(Value)) {
		lt, _ := cmpOrder(ex, args[1], args[0])
		done(lt)
	})
	reg(tm+"Equal", func(ex *Exec, g *G, fn *ssa.Function, args []Value, done func(Value)) {
		_, eq := cmpOrder(ex, args[0], args[1])
		done(eq)
	})
	reg(tm+"Compare", func(ex *Exec, g *G, fn *ssa.Function, args []Value, done func(Value)) {
		lt, eq := cmpOrder(ex, args[0], args[1])
		B := ex.B
		done(B.Ite(lt, ex.intC(-1), B.Ite(eq, ex.intC(0), ex.intC(1))))
	})
	reg(tm+"IsZero", func(ex *Exec, g *G, fn *ssa.Function, args []Value, done func(Value)) {
		s, n := ex.timeParts(args[0])
		B := ex.B
		done(B.And(B.Eq(s, B.BVC(0, 64)), B.Eq(n, B.BVC(0, 64))))
	})
	reg(tm+"Sub", func(ex *Exec, g *G, fn *ssa.Function, args []Value, done func(Value)) {
		// as time.Time.Sub: the difference saturates at the largest / smallest Duration
		_, na := ex.timeParts(args[0])
		_, nb := ex.timeParts(args[1])
		B := ex.B
		d := B.Sub(na, nb)
		// overflow of a - b: operands of different sign and the result's sign differs from a's
		aNeg, bNeg, dNeg := B.Slt(na, B.BVC(0, 64)), B.Slt(nb, B.BVC(0, 64)), B.Slt(d, B.BVC(0, 64))
		ovf := B.And(B.Not(B.Eq(aNeg, bNeg)), B.Not(B.Eq(aNeg, dNeg)))
		sat := B.Ite(aNeg, B.BVC(uint64(1)<<63, 64), B.BVC(uint64(1)<<63-1, 64))
		done(B.Ite(ovf, sat, d))
	})
	reg(tm+"Add", func(ex *Exec, g *G, fn *ssa.Function, args []Value, done func(Value)) {
		_, na := ex.timeParts(args[0])
		done(ex.mkTime(ex.B.Add(na, termOf(args[1]))))
	})
	reg(tm+"UnixNano", func(ex *Exec, g *G, fn *ssa.Function, args []Value, done func(Value)) {
		_, na := ex.timeParts(args[0])
		done(na)
	})
	reg(tm+"Unix", func(ex *Exec, g *G, fn *ssa.Function, args []Value, done func(Value)) {
		_, na := ex.timeParts(args[0])
		if na.IsConst() {
			v, _ := concInt(na)
			q := v / nsPerSec
			if v%nsPerSec < 0 {
				q--
			}
			done(ex.intC(q))
			return
		}
		// seconds of a symbolic instant: an unconstrained value would be unsound to reason about, a division is
		// undecidable in practice; the only use in the code under test is seeding math/rand, which is opaque anyway
		done(ex.input("unix-seconds", "int64", smt.BV(64)))
	})
	reg(tm+"UTC|"+tm+"Local|"+tm+"Round|"+tm+"In", func(ex *Exec, g *G, fn *ssa.Function, args []Value, done func(Value)) {
		if fn.Name() == "Round" {
			if d, ok := concInt(args[1]); !ok || d != 0 {
				ex.unsupported("time.Time.Round with non-zero duration")
			}
		}
		done(args[0])
	})
	reg(tm+"String|"+tm+"Format", func(ex *Exec, g *G, fn *ssa.Function, args []Value, done func(Value)) {
		done(ex.strC("<time>"))
	})

	// ---- durationpb ----
	reg("google.golang.org/protobuf/types/known/durationpb.New", func(ex *Exec, g *G, fn *ssa.Function, args []Value, done func(Value)) {
		B := ex.B
		d := termOf(args[0])
		info := ex.infoOfPtrT(fn.Signature.Results().At(0).Type())
		m := ex.newMsg(info)
		sec := B.SDiv(d, B.BVC(nsPerSec, 64))
		nanos := B.Extract(B.SRem(d, B.BVC(nsPerSec, 64)), 31, 0)
		ex.storeRaw(m.L.Kids[info.byName["seconds"].GoIdx], sec)
		ex.storeRaw(m.L.Kids[info.byName["nanos"].GoIdx], nanos)
		ex.setGhostNS(m.L, d)
		done(Ptr{m.L})
	})
	reg("(*google.golang.org/protobuf/types/known/durationpb.Duration).AsDuration", func(ex *Exec, g *G, fn *ssa.Function, args []Value, done func(Value)) {
		p, _ := args[0].(Ptr)
		if ns, ok := ghostNS(p.L); ok {
			done(ns)
			return
		}
		// no ghost: execute the real body (bit-precise, saturation included)
		ex.pushFrame(g, fn, args, nil, done)
	})
	// ---- timestamppb ----
	reg("google.golang.org/protobuf/types/known/timestamppb.New", func(ex *Exec, g *G, fn *ssa.Function, args []Value, done func(Value)) {
		B := ex.B
		_, ns := ex.timeParts(args[0])
		info := ex.infoOfPtrT(fn.Signature.Results().At(0).Type())
		m := ex.newMsg(info)
		// floor division for seconds, non-negative nanos
		q := B.SDiv(ns, B.BVC(nsPerSec, 64))
		r := B.SRem(ns, B.BVC(nsPerSec, 64))
		neg := B.Slt(r, B.BVC(0, 64))
		sec := B.Ite(neg, B.Sub(q, B.BVC(1, 64)), q)
		nanos := B.Extract(B.Ite(neg, B.Add(r, B.BVC(nsPerSec, 64)), r), 31, 0)
		ex.storeRaw(m.L.Kids[info.byName["seconds"].GoIdx], sec)
		ex.storeRaw(m.L.Kids[info.byName["nanos"].GoIdx], nanos)
		ex.setGhostNS(m.L, ns)
		done(Ptr{m.L})
	})
	reg("google.golang.org/protobuf/types/known/timestamppb.Now", func(ex *Exec, g *G, fn *ssa.Function, args []Value, done func(Value)) {
		intrinsics["time.Now"](ex, g, fn, nil, func(t Value) {
			newFn := fn.Pkg.Func("New")
			intrinsics["google.golang.org/protobuf/types/known/timestamppb.New"](ex, g, newFn, []Value{t}, done)
		})
	})
	reg("(*google.golang.org/protobuf/types/known/timestamppb.Timestamp).AsTime", func(ex *Exec, g *G, fn *ssa.Function, args []Value, done func(Value)) {
		B := ex.B
		p, _ := args[0].(Ptr)
		if ns, ok := ghostNS(p.L); ok {
			done(ex.mkTime(ns))
			return
		}
		if p.L == nil {
			done(ex.mkTime(B.BVC(0, 64))) // GetSeconds/GetNanos of nil are 0: the Unix epoch
			return
		}
		info := ex.infoOfPtrT(fn.Signature.Recv().Type())
		sec := termOf(p.L.Kids[info.byName["seconds"].GoIdx].V)
		nanos := B.Sext(termOf(p.L.Kids[info.byName["nanos"].GoIdx].V), 64)
		done(ex.mkTime(B.Add(B.Mul(sec, B.BVC(nsPerSec, 64)), nanos)))
	})
}
