package sym

import (
	"fmt"
	"go/token"
	"go/types"

	"golang.org/x/tools/go/ssa"

	"verif/engine/smt"
)

// goPanic starts Go-level panicking in goroutine g.
func (ex *Exec) goPanic(g *G, val Value, msg string) {
	ex.trace = append(ex.trace, "panic: "+msg+ex.where())
	g.panic = &panicState{val: val, msg: msg}
	g.pending = nil
}

func (ex *Exec) rtPanic(g *G, msg string) {
	ex.goPanic(g, IfaceV{V: &ErrObj{Kind: "runtime", Msg: msg}}, "runtime error: "+msg)
}

// runG executes goroutine g until it yields at a visible operation, finishes, or blocks.
func (ex *Exec) runG(g *G) {
	ex.cur = g
	for !g.done && g.pending == nil {
		if g.panic != nil {
			ex.unwindStep(g)
			continue
		}
		fr := g.top()
		if fr == nil {
			g.done = true
			break
		}
		ex.steps++
		if ex.steps > ex.E.Cfg.MaxSteps && ex.steps > ex.maxSteps {
			panic(pathEnd{StInconclusive, fmt.Sprintf("step budget %d exceeded%s", ex.E.Cfg.MaxSteps, ex.where())})
		}
		ex.step(g, fr)
	}
}

// unwindStep performs one step of panic propagation.
func (ex *Exec) unwindStep(g *G) {
	fr := g.top()
	if fr == nil {
		// uncaught panic: the path ends
		panic(pathEnd{StPanic, "panic: " + g.panic.msg})
	}
	if n := len(fr.defers); n > 0 {
		d := fr.defers[n-1]
		fr.defers = fr.defers[:n-1]
		ps := g.panic
		g.panic = nil // deferred call runs normally; re-armed afterwards unless recovered
		fr.recovered = false
		ex.invokeDeferred(g, fr, d, func(Value) {
			if fr.recovered {
				// recovered: the frame returns normally through its recover block
				fr.defers = append([]*deferred(nil), fr.defers...)
				ex.finishRecovered(g, fr)
				return
			}
			if g.panic == nil {
				g.panic = ps
			}
		}, ps)
		return
	}
	// no more defers: pop frame
	g.frames = g.frames[:len(g.frames)-1]
	if fr.catch {
		ps := g.panic
		g.panic = nil
		fr.onReturn(ex.B.StrC(ps.msg))
		return
	}
	if len(g.frames) == 0 {
		if g.isMain || true {
			panic(pathEnd{StPanic, "panic: " + g.panic.msg})
		}
	}
}

// finishRecovered makes frame fr return after a recovered panic.
func (ex *Exec) finishRecovered(g *G, fr *Frame) {
	// run remaining defers first (they run in normal mode)
	if len(fr.defers) > 0 {
		n := len(fr.defers)
		d := fr.defers[n-1]
		fr.defers = fr.defers[:n-1]
		ex.invokeDeferred(g, fr, d, func(Value) { ex.finishRecovered(g, fr) }, nil)
		return
	}
	if fr.fn.Recover != nil {
		fr.prev = fr.block
		fr.block = fr.fn.Recover
		fr.ip = 0
		return
	}
	// return zero values
	ex.popReturn(g, fr, ex.zeroResults(fr.fn))
}

func (ex *Exec) zeroResults(fn *ssa.Function) Value {
	res := fn.Signature.Results()
	switch res.Len() {
	case 0:
		return nil
	case 1:
		return ex.zero(res.At(0).Type())
	}
	return ex.zero(res)
}

func (ex *Exec) popReturn(g *G, fr *Frame, v Value) {
	if g.top() != fr {
		panic("popReturn: frame is not on top")
	}
	g.frames = g.frames[:len(g.frames)-1]
	if fr.onReturn != nil {
		fr.onReturn(v)
	}
	if len(g.frames) == 0 && g.pending == nil {
		g.done = true
	}
}

// invokeDeferred runs one deferred call; done is called when it has returned.
func (ex *Exec) invokeDeferred(g *G, fr *Frame, d *deferred, done func(Value), ps *panicState) {
	ex.callCommon(g, fr, d.call, d.fn, d.args, func(v Value) { done(v) }, true, ps)
}

func (ex *Exec) step(g *G, fr *Frame) {
	in := fr.block.Instrs[fr.ip]
	if fr.fn.Synthetic != "" && fr.fn.Name() == "init" && (ex.inPBFile(in.Pos()) || ex.usesSkipped(fr, in)) {
		// package initialiser: variable initialisers of protoc-gen-go files (raw descriptors, type tables) are skipped,
		// and so is everything computed from them
		switch in.(type) {
		case *ssa.If, *ssa.Jump, *ssa.Return, *ssa.Panic:
		default:
			if v, ok := in.(ssa.Value); ok {
				ex.set(fr, v, nil)
			}
			fr.ip++
			return
		}
	}
	switch x := in.(type) {
	case *ssa.DebugRef:
		fr.ip++
	case *ssa.Alloc:
		l := ex.newLoc(types.Unalias(x.Type()).(*types.Pointer).Elem())
		l.Owner = g.id
		ex.set(fr, x, Ptr{l})
		fr.ip++
	case *ssa.BinOp:
		ex.set(fr, x, ex.binop(g, x.Op, x.X.Type(), ex.get(fr, x.X), ex.get(fr, x.Y), x.Y.Type()))
		if g.panic == nil {
			fr.ip++
		}
	case *ssa.UnOp:
		ex.unop(g, fr, x)
	case *ssa.Phi:
		// evaluate all phis of the block simultaneously
		idx := -1
		for i, p := range fr.block.Preds {
			if p == fr.prev {
				idx = i
				break
			}
		}
		if idx < 0 {
			panic("phi: predecessor not found")
		}
		var phis []*ssa.Phi
		var vals []Value
		for _, in2 := range fr.block.Instrs[fr.ip:] {
			p, ok := in2.(*ssa.Phi)
			if !ok {
				break
			}
			phis = append(phis, p)
			vals = append(vals, ex.get(fr, p.Edges[idx]))
		}
		for i, p := range phis {
			ex.set(fr, p, vals[i])
		}
		fr.ip += len(phis)
	case *ssa.If:
		c := termOf(ex.get(fr, x.Cond))
		if ex.branch(c) {
			ex.jump(fr, fr.block.Succs[0])
		} else {
			ex.jump(fr, fr.block.Succs[1])
		}
	case *ssa.Jump:
		ex.jump(fr, fr.block.Succs[0])
	case *ssa.Return:
		var v Value
		switch len(x.Results) {
		case 0:
		case 1:
			v = ex.get(fr, x.Results[0])
		default:
			tv := make(TupleV, len(x.Results))
			for i, r := range x.Results {
				tv[i] = ex.get(fr, r)
			}
			v = tv
		}
		ex.popReturn(g, fr, v)
	case *ssa.Call:
		ex.doCall(g, fr, x)
	case *ssa.Defer:
		d := &deferred{call: &x.Call}
		if !x.Call.IsInvoke() {
			if _, isB := x.Call.Value.(*ssa.Builtin); !isB {
				d.fn = ex.get(fr, x.Call.Value)
			}
		} else {
			d.fn = ex.get(fr, x.Call.Value)
		}
		for _, a := range x.Call.Args {
			d.args = append(d.args, ex.get(fr, a))
		}
		fr.defers = append(fr.defers, d)
		fr.ip++
	case *ssa.RunDefers:
		if n := len(fr.defers); n > 0 {
			d := fr.defers[n-1]
			fr.defers = fr.defers[:n-1]
			ex.invokeDeferred(g, fr, d, func(Value) {}, nil)
			// stay on RunDefers
		} else {
			fr.ip++
		}
	case *ssa.Go:
		ng := ex.newG(fmt.Sprintf("go@%s", ex.E.Prog.Fset.Position(x.Pos())))
		var fnv Value
		if _, isB := x.Call.Value.(*ssa.Builtin); !isB {
			fnv = ex.get(fr, x.Call.Value)
		}
		var args []Value
		for _, a := range x.Call.Args {
			args = append(args, ex.get(fr, a))
		}
		if ex.race != nil {
			ex.race.fork(g, ng)
		}
		saved := ex.cur
		ex.cur = ng
		ex.callCommon(ng, nil, &x.Call, fnv, args, func(Value) {}, false, nil)
		ex.cur = saved
		if len(ng.frames) == 0 && ng.pending == nil {
			ng.done = true
		}
		fr.ip++
	case *ssa.Panic:
		v := ex.get(fr, x.X)
		ex.goPanic(g, v, ex.panicMsg(v))
	case *ssa.Store:
		p := ex.get(fr, x.Addr).(Ptr)
		if p.L == nil {
			ex.rtPanic(g, "invalid memory address or nil pointer dereference (store)")
			return
		}
		ex.store(p.L, ex.get(fr, x.Val))
		fr.ip++
	case *ssa.MapUpdate:
		m := ex.get(fr, x.Map).(MapV)
		if m.M == nil {
			ex.rtPanic(g, "assignment to entry in nil map")
			return
		}
		ex.mapSet(m.M, ex.get(fr, x.Key), ex.get(fr, x.Value))
		fr.ip++
	case *ssa.Send:
		ch := ex.get(fr, x.Chan).(ChanV)
		val := ex.get(fr, x.X)
		g.pending = &VisOp{Kind: "send", Cases: []selCase{{Send: true, Ch: ch.C, Val: val}},
			Done: func(int, Value, bool) { fr.ip++ }}
	case *ssa.Select:
		var cases []selCase
		for _, st := range x.States {
			ch := ex.get(fr, st.Chan).(ChanV)
			c := selCase{Ch: ch.C, Send: st.Dir == types.SendOnly}
			if c.Send {
				c.Val = ex.get(fr, st.Send)
			}
			cases = append(cases, c)
		}
		g.pending = &VisOp{Kind: "select", Cases: cases, HasDefault: !x.Blocking,
			Done: func(idx int, recv Value, ok bool) {
				// result tuple: (index int, recvOk bool, r_0 T_0, ... r_n-1 T_n-1)
				tv := TupleV{ex.intC(idx), ex.boolC(ok)}
				for i, st := range x.States {
					if st.Dir == types.RecvOnly {
						et := st.Chan.Type().Underlying().(*types.Chan).Elem()
						if i == idx && recv != nil {
							tv = append(tv, recv)
						} else {
							tv = append(tv, ex.zero(et))
						}
					}
				}
				ex.set(fr, x, tv)
				fr.ip++
			}}
	default:
		if v, ok := in.(ssa.Value); ok {
			ex.set(fr, v, ex.evalValueInstr(g, fr, v))
			if g.panic == nil {
				fr.ip++
			}
			return
		}
		ex.unsupported(fmt.Sprintf("instruction %T", in))
	}
}

// usesSkipped: some operand of in was produced by a skipped instruction (its slot is empty).
func (ex *Exec) usesSkipped(fr *Frame, in ssa.Instruction) bool {
	switch in.(type) {
	case *ssa.Phi, *ssa.If, *ssa.Jump, *ssa.Return:
		return false
	}
	var buf [8]*ssa.Value
	for _, op := range in.Operands(buf[:0]) {
		if op == nil || *op == nil {
			continue
		}
		if i, ok := fr.info.nums[*op]; ok {
			if _, isInstr := (*op).(ssa.Instruction); isInstr && fr.env[i] == nil {
				if c, isCall := (*op).(*ssa.Call); isCall && c.Call.Signature().Results().Len() == 0 {
					continue
				}
				return true
			}
		}
	}
	return false
}

func (ex *Exec) jump(fr *Frame, to *ssa.BasicBlock) {
	if fr.visits == nil {
		fr.visits = map[*ssa.BasicBlock]int{}
	}
	fr.visits[to]++
	bound := ex.E.Cfg.MaxBlockVisit
	if ex.unwind > bound {
		bound = ex.unwind
	}
	if fr.visits[to] > bound {
		panic(pathEnd{StInconclusive, fmt.Sprintf("unwind bound %d exceeded in %s block %d%s", bound, fr.fn, to.Index, ex.where())})
	}
	fr.prev = fr.block
	fr.block = to
	fr.ip = 0
}

func (ex *Exec) panicMsg(v Value) string {
	if iv, ok := v.(IfaceV); ok {
		if s, ok := concStr(iv.V); ok {
			return s
		}
		if e, ok := iv.V.(*ErrObj); ok {
			return e.Msg
		}
		return ex.describe(iv.V)
	}
	return ex.describe(v)
}

// evalValueInstr handles value-producing instructions without control effects.
func (ex *Exec) evalValueInstr(g *G, fr *Frame, v ssa.Value) Value {
	switch x := v.(type) {
	case *ssa.ChangeType:
		return ex.get(fr, x.X)
	case *ssa.ChangeInterface:
		return ex.get(fr, x.X)
	case *ssa.Convert:
		return ex.convert(ex.get(fr, x.X), x.X.Type(), x.Type())
	case *ssa.MakeInterface:
		val := ex.get(fr, x.X)
		return IfaceV{T: x.X.Type(), V: val}
	case *ssa.MakeClosure:
		fn := x.Fn.(*ssa.Function)
		env := make([]Value, len(x.Bindings))
		for i, b := range x.Bindings {
			env[i] = ex.get(fr, b)
		}
		return FuncV{Fn: fn, Env: env}
	case *ssa.MakeMap:
		mt := x.Type().Underlying().(*types.Map)
		ex.nobj++
		return MapV{&MapObj{KT: mt.Key(), VT: mt.Elem(), ID: ex.nobj}}
	case *ssa.MakeChan:
		n, ok := concInt(ex.get(fr, x.Size))
		if !ok {
			ex.unsupported("symbolic channel capacity")
		}
		return ChanV{ex.newChan(n, x.Type().Underlying().(*types.Chan).Elem())}
	case *ssa.MakeSlice:
		ln := ex.concretize(termOf(ex.get(fr, x.Len)), "make len", 16)
		cp := ex.concretize(termOf(ex.get(fr, x.Cap)), "make cap", 16)
		if ln < 0 || cp < ln {
			ex.rtPanic(g, "makeslice: len out of range")
			return nil
		}
		et := x.Type().Underlying().(*types.Slice).Elem()
		arr := ex.newArrayLoc(et, cp)
		arr.Owner = g.id
		return SliceV{Arr: arr, Off: 0, Len: ln, Cap: cp}
	case *ssa.FieldAddr:
		p := ex.get(fr, x.X).(Ptr)
		if p.L == nil {
			ex.rtPanic(g, "invalid memory address or nil pointer dereference")
			return nil
		}
		if p.L.Kids == nil {
			ex.unsupported("field address into opaque " + p.L.T.String())
		}
		return Ptr{p.L.Kids[x.Field]}
	case *ssa.Field:
		sv, ok := ex.get(fr, x.X).(StructV)
		if !ok {
			ex.unsupported(fmt.Sprintf("field of non-struct value %T (%s)", ex.get(fr, x.X), x.X.Type()))
		}
		return sv.F[x.Field]
	case *ssa.IndexAddr:
		base := ex.get(fr, x.X)
		idxT := termOf(ex.get(fr, x.Index))
		switch b := base.(type) {
		case SliceV:
			i, ok := ex.boundIndex(g, idxT, b.Len)
			if !ok {
				return nil
			}
			return Ptr{b.Arr.Kids[b.Off+i]}
		case Ptr:
			if b.L == nil {
				ex.rtPanic(g, "nil pointer dereference (array index)")
				return nil
			}
			i, ok := ex.boundIndex(g, idxT, len(b.L.Kids))
			if !ok {
				return nil
			}
			return Ptr{b.L.Kids[i]}
		}
		ex.unsupported(fmt.Sprintf("IndexAddr on %T", base))
	case *ssa.Index:
		base := ex.get(fr, x.X)
		idxT := termOf(ex.get(fr, x.Index))
		switch b := base.(type) {
		case ArrayV:
			i, ok := ex.boundIndex(g, idxT, len(b.E))
			if !ok {
				return nil
			}
			return b.E[i]
		case *smt.Term: // string index
			s, ok := concStr(b)
			if !ok {
				ex.unsupported("index into symbolic string")
			}
			i, ok2 := ex.boundIndex(g, idxT, len(s))
			if !ok2 {
				return nil
			}
			return ex.B.BVC(uint64(s[i]), 8)
		}
		ex.unsupported(fmt.Sprintf("Index on %T", base))
	case *ssa.Lookup:
		base := ex.get(fr, x.X)
		if s, ok := base.(*smt.Term); ok {
			cs, okc := concStr(s)
			if !okc {
				ex.unsupported("index into symbolic string")
			}
			i, ok2 := ex.boundIndex(g, termOf(ex.get(fr, x.Index)), len(cs))
			if !ok2 {
				return nil
			}
			return ex.B.BVC(uint64(cs[i]), 8)
		}
		m := base.(MapV)
		vt := x.X.Type().Underlying().(*types.Map).Elem()
		val, found := ex.mapGet(m.M, ex.get(fr, x.Index), vt)
		if x.CommaOk {
			return TupleV{val, ex.boolC(found)}
		}
		return val
	case *ssa.Slice:
		return ex.sliceOp(g, fr, x)
	case *ssa.Extract:
		return ex.get(fr, x.Tuple).(TupleV)[x.Index]
	case *ssa.TypeAssert:
		return ex.typeAssert(g, x, ex.get(fr, x.X))
	case *ssa.Range:
		return ex.makeRange(ex.get(fr, x.X))
	case *ssa.Next:
		return ex.rangeNext(x, ex.get(fr, x.Iter))
	case *ssa.SliceToArrayPointer:
		s := ex.get(fr, x.X).(SliceV)
		n := int(types.Unalias(x.Type()).(*types.Pointer).Elem().Underlying().(*types.Array).Len())
		if s.Len < n {
			ex.rtPanic(g, "cannot convert slice to array pointer: length too short")
			return nil
		}
		if s.Arr == nil {
			return Ptr{}
		}
		if s.Off == 0 && len(s.Arr.Kids) == n {
			return Ptr{s.Arr}
		}
		ex.unsupported("slice to array pointer with offset")
	}
	ex.unsupported(fmt.Sprintf("instruction %T", v))
	return nil
}

// boundIndex resolves an index term to a concrete in-range index (forking over
// feasible values); an out-of-range index panics.
func (ex *Exec) boundIndex(g *G, idx *smt.Term, n int) (int, bool) {
	if idx.Sort.W != 64 {
		idx = ex.B.Sext(idx, 64)
	}
	if i, ok := concInt(idx); ok {
		if i < 0 || i >= n {
			ex.rtPanic(g, fmt.Sprintf("index out of range [%d] with length %d", i, n))
			return 0, false
		}
		return i, true
	}
	inRange := ex.B.And(ex.B.Sle(ex.intC(0), idx), ex.B.Slt(idx, ex.intC(n)))
	if !ex.branch(inRange) {
		ex.rtPanic(g, fmt.Sprintf("index out of range [symbolic] with length %d", n))
		return 0, false
	}
	return ex.concretize(idx, "index", 64), true
}

func (ex *Exec) sliceOp(g *G, fr *Frame, x *ssa.Slice) Value {
	base := ex.get(fr, x.X)
	geti := func(v ssa.Value, def int) int {
		if v == nil {
			return def
		}
		return ex.concretize(termOf(ex.get(fr, v)), "slice bound", 32)
	}
	switch b := base.(type) {
	case *smt.Term:
		s, ok := concStr(b)
		if !ok {
			ex.unsupported("slicing symbolic string")
		}
		lo, hi := geti(x.Low, 0), geti(x.High, len(s))
		if lo < 0 || hi > len(s) || lo > hi {
			ex.rtPanic(g, fmt.Sprintf("slice bounds out of range [%d:%d] with length %d", lo, hi, len(s)))
			return nil
		}
		return ex.strC(s[lo:hi])
	case SliceV:
		lo, hi := geti(x.Low, 0), geti(x.High, b.Len)
		mx := geti(x.Max, b.Cap)
		if lo < 0 || hi > b.Cap || lo > hi || mx > b.Cap || hi > mx {
			ex.rtPanic(g, fmt.Sprintf("slice bounds out of range [%d:%d:%d] with capacity %d", lo, hi, mx, b.Cap))
			return nil
		}
		if b.Arr == nil {
			return SliceV{}
		}
		return SliceV{Arr: b.Arr, Off: b.Off + lo, Len: hi - lo, Cap: mx - lo}
	case Ptr: // *array
		if b.L == nil {
			ex.rtPanic(g, "slice of nil array pointer")
			return nil
		}
		n := len(b.L.Kids)
		lo, hi := geti(x.Low, 0), geti(x.High, n)
		mx := geti(x.Max, n)
		if lo < 0 || hi > n || lo > hi || mx > n || hi > mx {
			ex.rtPanic(g, "slice bounds out of range")
			return nil
		}
		return SliceV{Arr: b.L, Off: lo, Len: hi - lo, Cap: mx - lo}
	}
	ex.unsupported(fmt.Sprintf("slice of %T", base))
	return nil
}

func (ex *Exec) unop(g *G, fr *Frame, x *ssa.UnOp) {
	v := ex.get(fr, x.X)
	switch x.Op {
	case token.MUL:
		p := v.(Ptr)
		if p.L == nil {
			ex.rtPanic(g, "invalid memory address or nil pointer dereference")
			return
		}
		ex.noteAccess(p.L, false)
		ex.set(fr, x, ex.load(p.L))
		fr.ip++
	case token.NOT:
		ex.set(fr, x, ex.B.Not(termOf(v)))
		fr.ip++
	case token.SUB:
		t := termOf(v)
		if isIntF(t) {
			ex.set(fr, x, ex.B.Neg(t))
		} else if t.Sort.K == smt.KFP {
			ex.set(fr, x, ex.B.FUn(smt.OFNeg, t))
		} else {
			ex.set(fr, x, ex.B.Neg(t))
		}
		fr.ip++
	case token.XOR:
		ex.set(fr, x, ex.B.BNot(termOf(v)))
		fr.ip++
	case token.ARROW:
		ch := v.(ChanV)
		g.pending = &VisOp{Kind: "recv", Cases: []selCase{{Ch: ch.C}},
			Done: func(_ int, recv Value, ok bool) {
				if recv == nil {
					recv = ex.zero(x.X.Type().Underlying().(*types.Chan).Elem())
				}
				if x.CommaOk {
					ex.set(fr, x, TupleV{recv, ex.boolC(ok)})
				} else {
					ex.set(fr, x, recv)
				}
				fr.ip++
			}}
	default:
		ex.unsupported("unop " + x.Op.String())
	}
}

func (ex *Exec) binop(g *G, op token.Token, xt types.Type, xv, yv Value, yt types.Type) Value {
	B := ex.B
	switch op {
	case token.EQL:
		return ex.valuesEqual(xv, yv)
	case token.NEQ:
		return B.Not(ex.valuesEqual(xv, yv))
	}
	x, okx := xv.(*smt.Term)
	y, oky := yv.(*smt.Term)
	if !okx || !oky {
		ex.unsupported(fmt.Sprintf("binop %s on %T,%T", op, xv, yv))
	}
	if isIntF(x) || isIntF(y) {
		x, y = ex.intFPair(x, y)
		switch op {
		case token.ADD:
			return B.Add(x, y)
		case token.SUB:
			return B.Sub(x, y)
		case token.LSS:
			return B.Slt(x, y)
		case token.LEQ:
			return B.Sle(x, y)
		case token.GTR:
			return B.Slt(y, x)
		case token.GEQ:
			return B.Sle(y, x)
		}
		ex.unsupported("float op " + op.String() + " on an intfloat value (only + - and comparisons are exact)")
	}
	if isOrd(x) || isOrd(y) {
		x, y = ex.ordPair(x, y)
		switch op {
		case token.LSS:
			return B.Ult(x, y)
		case token.LEQ:
			return B.Ule(x, y)
		case token.GTR:
			return B.Ult(y, x)
		case token.GEQ:
			return B.Ule(y, x)
		}
		ex.unsupported("string op " + op.String() + " on ordinal string")
	}
	if x.Sort.K == smt.KStr {
		switch op {
		case token.ADD:
			return B.StrCat(x, y)
		case token.LSS:
			return B.StrLt(x, y)
		case token.LEQ:
			return B.StrLe(x, y)
		case token.GTR:
			return B.StrLt(y, x)
		case token.GEQ:
			return B.StrLe(y, x)
		}
		ex.unsupported("string op " + op.String())
	}
	if x.Sort.K == smt.KFP {
		switch op {
		case token.ADD:
			return B.FBin(smt.OFAdd, x, y)
		case token.SUB:
			return B.FBin(smt.OFSub, x, y)
		case token.MUL:
			return B.FBin(smt.OFMul, x, y)
		case token.QUO:
			return B.FBin(smt.OFDiv, x, y)
		case token.LSS:
			return B.FCmp(smt.OFLt, x, y)
		case token.LEQ:
			return B.FCmp(smt.OFLe, x, y)
		case token.GTR:
			return B.FCmp(smt.OFLt, y, x)
		case token.GEQ:
			return B.FCmp(smt.OFLe, y, x)
		}
		ex.unsupported("float op " + op.String())
	}
	if x.Sort.K == smt.KBool {
		switch op {
		case token.AND, token.LAND:
			return B.And(x, y)
		case token.OR, token.LOR:
			return B.Or(x, y)
		}
		ex.unsupported("bool op " + op.String())
	}
	signed := isSigned(xt)
	switch op {
	case token.SHL, token.SHR:
		// shift count may have another width; Go: count >= width gives 0 (or sign fill)
		w := x.Sort.W
		c := y
		if isSigned(yt) {
			// negative shift count panics
			if v, ok := concInt(c); ok {
				if v < 0 {
					ex.rtPanic(g, "negative shift amount")
					return nil
				}
			} else if ex.branch(B.Slt(c, B.BVC(0, c.Sort.W))) {
				ex.rtPanic(g, "negative shift amount")
				return nil
			}
		}
		if c.Sort.W < w {
			c = B.Zext(c, w)
		} else if c.Sort.W > w {
			big := B.Ule(B.BVC(uint64(w), c.Sort.W), c)
			cc := B.Extract(c, w-1, 0)
			var sat *smt.Term
			if op == token.SHL || !signed {
				sat = B.BVC(0, w)
			} else {
				sat = B.Ashr(x, B.BVC(uint64(w-1), w))
			}
			var r *smt.Term
			if op == token.SHL {
				r = B.Shl(x, cc)
			} else if signed {
				r = B.Ashr(x, cc)
			} else {
				r = B.Lshr(x, cc)
			}
			return B.Ite(big, sat, r)
		}
		if op == token.SHL {
			return B.Shl(x, c)
		}
		if signed {
			return B.Ashr(x, c)
		}
		return B.Lshr(x, c)
	}
	if x.Sort != y.Sort {
		ex.unsupported(fmt.Sprintf("binop %s width mismatch %v %v", op, x.Sort, y.Sort))
	}
	switch op {
	case token.ADD:
		return B.Add(x, y)
	case token.SUB:
		return B.Sub(x, y)
	case token.MUL:
		return B.Mul(x, y)
	case token.QUO, token.REM:
		zero := B.BVC(0, x.Sort.W)
		if ex.branch(B.Eq(y, zero)) {
			ex.rtPanic(g, "integer divide by zero")
			return nil
		}
		if op == token.QUO {
			if signed {
				return B.SDiv(x, y)
			}
			return B.UDiv(x, y)
		}
		if signed {
			return B.SRem(x, y)
		}
		return B.URem(x, y)
	case token.AND:
		return B.BAnd(x, y)
	case token.OR:
		return B.BOr(x, y)
	case token.XOR:
		return B.BXor(x, y)
	case token.AND_NOT:
		return B.BAnd(x, B.BNot(y))
	case token.LSS:
		if signed {
			return B.Slt(x, y)
		}
		return B.Ult(x, y)
	case token.LEQ:
		if signed {
			return B.Sle(x, y)
		}
		return B.Ule(x, y)
	case token.GTR:
		if signed {
			return B.Slt(y, x)
		}
		return B.Ult(y, x)
	case token.GEQ:
		if signed {
			return B.Sle(y, x)
		}
		return B.Ule(y, x)
	}
	ex.unsupported("binop " + op.String())
	return nil
}

// valuesEqual is Go's == as a boolean term.
func (ex *Exec) valuesEqual(a, b Value) *smt.Term {
	B := ex.B
	switch x := a.(type) {
	case nil:
		switch y := b.(type) {
		case nil:
			return B.True()
		case IfaceV:
			return B.BoolC(y.T == nil && y.V == nil)
		}
		return ex.valuesEqual(b, a)
	case *smt.Term:
		y, ok := b.(*smt.Term)
		if !ok {
			ex.unsupported(fmt.Sprintf("== between term and %T", b))
		}
		if isIntF(x) || isIntF(y) {
			x, y = ex.intFPair(x, y)
			return B.Eq(x, y)
		}
		if x.Sort.K == smt.KFP {
			return B.FCmp(smt.OFEq, x, y)
		}
		if isOrd(x) || isOrd(y) {
			x, y = ex.ordPair(x, y)
		}
		return B.Eq(x, y)
	case Ptr:
		switch y := b.(type) {
		case Ptr:
			return B.BoolC(x.L == y.L)
		case nil:
			return B.BoolC(x.L == nil)
		}
	case IfaceV:
		switch y := b.(type) {
		case nil:
			return B.BoolC(x.T == nil && x.V == nil)
		case IfaceV:
			xn, yn := x.T == nil && x.V == nil, y.T == nil && y.V == nil
			if xn || yn {
				return B.BoolC(xn && yn)
			}
			if (x.T == nil) != (y.T == nil) {
				return B.False()
			}
			if x.T != nil && !types.Identical(x.T, y.T) {
				return B.False()
			}
			return ex.valuesEqual(x.V, y.V)
		}
	case TokenV:
		if y, ok := b.(TokenV); ok {
			if x.Gen != y.Gen {
				return B.False()
			}
			return B.Eq(x.ID, y.ID)
		}
		return B.False()
	case StructV:
		y, ok := b.(StructV)
		if !ok {
			return B.False()
		}
		var cs []*smt.Term
		for i := range x.F {
			cs = append(cs, ex.valuesEqual(x.F[i], y.F[i]))
		}
		return B.And(cs...)
	case ArrayV:
		y := b.(ArrayV)
		var cs []*smt.Term
		for i := range x.E {
			cs = append(cs, ex.valuesEqual(x.E[i], y.E[i]))
		}
		return B.And(cs...)
	case ChanV:
		switch y := b.(type) {
		case ChanV:
			return B.BoolC(x.C == y.C)
		case nil:
			return B.BoolC(x.C == nil)
		}
	case MapV:
		if b == nil {
			return B.BoolC(x.M == nil)
		}
		if y, ok := b.(MapV); ok && (x.M == nil || y.M == nil) {
			return B.BoolC(x.M == y.M)
		}
	case SliceV:
		if b == nil {
			return B.BoolC(x.Arr == nil)
		}
		if y, ok := b.(SliceV); ok && (x.Arr == nil || y.Arr == nil) {
			return B.BoolC(x.Arr == nil && y.Arr == nil)
		}
	case FuncV:
		isNil := x.Fn == nil && x.Native == nil
		if b == nil {
			return B.BoolC(isNil)
		}
		if y, ok := b.(FuncV); ok && (isNil || (y.Fn == nil && y.Native == nil)) {
			return B.BoolC(isNil && y.Fn == nil && y.Native == nil)
		}
	default:
		// native objects compare by identity
		return B.BoolC(a == b)
	}
	ex.unsupported(fmt.Sprintf("== between %T and %T", a, b))
	return nil
}

func (ex *Exec) convert(v Value, from, to types.Type) Value {
	B := ex.B
	fu, tu := from.Underlying(), to.Underlying()
	if t, ok := v.(*smt.Term); ok {
		ts, okT := sortOf(to)
		if okT && isIntF(t) {
			switch ts.K {
			case smt.KFP:
				return t // float32 <-> float64 of an exactly representable integer
			case smt.KBV:
				if ts.W >= smt.IntFW {
					return B.Sext(t, ts.W)
				}
				return B.Extract(t, ts.W-1, 0)
			}
		}
		if okT {
			switch {
			case t.Sort.K == smt.KBV && ts.K == smt.KBV:
				if ts.W == t.Sort.W {
					return t
				}
				if ts.W < t.Sort.W {
					return B.Extract(t, ts.W-1, 0)
				}
				if isSigned(from) {
					return B.Sext(t, ts.W)
				}
				return B.Zext(t, ts.W)
			case t.Sort.K == smt.KBV && ts.K == smt.KFP:
				if isSigned(from) {
					return B.FFromSBV(t, ts.W)
				}
				return B.FFromUBV(t, ts.W)
			case t.Sort.K == smt.KFP && ts.K == smt.KFP:
				return B.FToFP(t, ts.W)
			case t.Sort.K == smt.KFP && ts.K == smt.KBV:
				if !isSigned(to) {
					ex.unsupported("float to unsigned conversion")
				}
				return B.FToSBV(t, ts.W)
			case t.Sort.K == smt.KStr && ts.K == smt.KStr:
				return t
			case t.Sort.K == smt.KBV && ts.K == smt.KStr:
				if i, ok := concInt(t); ok {
					return B.StrC(string(rune(i)))
				}
				ex.unsupported("string(symbolic rune)")
			}
		}
		// string -> []byte / []rune
		if t.Sort.K == smt.KStr {
			if sl, ok := tu.(*types.Slice); ok {
				s, okc := concStr(t)
				if !okc {
					ex.unsupported("[]byte(symbolic string)")
				}
				eb := sl.Elem().Underlying().(*types.Basic)
				if eb.Kind() == types.Uint8 {
					arr := ex.newArrayLoc(sl.Elem(), len(s))
					for i := 0; i < len(s); i++ {
						arr.Kids[i].V = B.BVC(uint64(s[i]), 8)
					}
					return SliceV{Arr: arr, Len: len(s), Cap: len(s)}
				}
				rs := []rune(s)
				arr := ex.newArrayLoc(sl.Elem(), len(rs))
				for i, r := range rs {
					arr.Kids[i].V = B.BVC(uint64(r), 32)
				}
				return SliceV{Arr: arr, Len: len(rs), Cap: len(rs)}
			}
		}
	}
	if sv, ok := v.(SliceV); ok {
		if isString(to) {
			sl := fu.(*types.Slice)
			eb := sl.Elem().Underlying().(*types.Basic)
			var bs []byte
			var rs []rune
			for i := 0; i < sv.Len; i++ {
				c, okc := concInt(sv.Arr.Kids[sv.Off+i].V)
				if !okc {
					ex.unsupported("string(symbolic bytes)")
				}
				if eb.Kind() == types.Uint8 {
					bs = append(bs, byte(c))
				} else {
					rs = append(rs, rune(c))
				}
			}
			if eb.Kind() == types.Uint8 {
				return B.StrC(string(bs))
			}
			return B.StrC(string(rs))
		}
	}
	if _, ok := tu.(*types.Pointer); ok {
		return v
	}
	if b, ok := tu.(*types.Basic); ok && b.Kind() == types.UnsafePointer {
		return v
	}
	ex.unsupported(fmt.Sprintf("convert %s -> %s (%T)", from, to, v))
	return nil
}

func (ex *Exec) typeAssert(g *G, x *ssa.TypeAssert, v Value) Value {
	iv, _ := v.(IfaceV)
	ok := false
	var res Value
	isNil := iv.T == nil && iv.V == nil
	if _, isIface := x.AssertedType.Underlying().(*types.Interface); isIface {
		if !isNil {
			ok = ex.implements(iv, x.AssertedType)
		}
		res = iv
		if !ok {
			res = IfaceV{}
		}
	} else {
		if !isNil && iv.T != nil && types.Identical(iv.T, x.AssertedType) {
			ok = true
			res = iv.V
		} else {
			res = ex.zero(x.AssertedType)
		}
	}
	if x.CommaOk {
		return TupleV{res, ex.boolC(ok)}
	}
	if !ok {
		desc := "nil"
		if iv.T != nil {
			desc = iv.T.String()
		} else if iv.V != nil {
			desc = fmt.Sprintf("%T", iv.V)
		}
		ex.rtPanic(g, fmt.Sprintf("interface conversion: interface is %s, not %s", desc, x.AssertedType))
		return nil
	}
	return res
}

func (ex *Exec) implements(iv IfaceV, it types.Type) bool {
	iface := it.Underlying().(*types.Interface)
	if iv.T != nil {
		if _, isTok := iv.V.(TokenV); isTok {
			return types.Implements(iv.T, iface)
		}
		return types.Implements(iv.T, iface)
	}
	// native object: by method names
	ms := nativeMethods(iv.V)
	for i := 0; i < iface.NumMethods(); i++ {
		if !ms[iface.Method(i).Name()] {
			return false
		}
	}
	return true
}

// ---- range ----

type rangeIter struct {
	kind string
	m    *MapObj
	keys []Value
	vals []Value
	i    int
	str  string
}

func (ex *Exec) makeRange(v Value) Value {
	switch x := v.(type) {
	case MapV:
		it := &rangeIter{kind: "map", m: x.M}
		if x.M != nil && ex.race != nil {
			ex.race.accessMap(ex, x.M, false)
		}
		if x.M != nil {
			n := len(x.M.Keys)
			order := make([]int, n)
			for i := range order {
				order[i] = i
			}
			if ex.E.Cfg.MapOrders && n >= 2 && n <= 3 {
				// explore every iteration order of small maps
				perms := permutations(n)
				p := ex.choose("maporder", len(perms), func(int) *smt.Term { return nil })
				order = perms[p]
			}
			for _, i := range order {
				it.keys = append(it.keys, x.M.Keys[i])
				it.vals = append(it.vals, ex.load(x.M.Vals[i]))
			}
		}
		return it
	case *smt.Term:
		s, ok := concStr(x)
		if !ok {
			ex.unsupported("range over symbolic string")
		}
		return &rangeIter{kind: "string", str: s}
	}
	ex.unsupported(fmt.Sprintf("range over %T", v))
	return nil
}

func permutations(n int) [][]int {
	if n == 0 {
		return [][]int{{}}
	}
	var out [][]int
	var rec func(cur []int, used []bool)
	rec = func(cur []int, used []bool) {
		if len(cur) == n {
			out = append(out, append([]int(nil), cur...))
			return
		}
		for i := 0; i < n; i++ {
			if !used[i] {
				used[i] = true
				rec(append(cur, i), used)
				used[i] = false
			}
		}
	}
	rec(nil, make([]bool, n))
	return out
}

func (ex *Exec) rangeNext(x *ssa.Next, itv Value) Value {
	it := itv.(*rangeIter)
	tt := x.Type().(*types.Tuple)
	if it.kind == "string" {
		if it.i >= len(it.str) {
			return TupleV{ex.boolC(false), ex.intC(0), ex.B.BVC(0, 32)}
		}
		for i, r := range it.str[it.i:] {
			_ = i
			idx := it.i
			n := len(string(r))
			if r == 0xFFFD {
				n = 1
			}
			it.i += n
			return TupleV{ex.boolC(true), ex.intC(idx), ex.B.BVC(uint64(r), 32)}
		}
	}
	if it.i >= len(it.keys) {
		return TupleV{ex.boolC(false), ex.zeroOrNil(tt.At(1).Type()), ex.zeroOrNil(tt.At(2).Type())}
	}
	k, v := it.keys[it.i], it.vals[it.i]
	it.i++
	// entries deleted during iteration are skipped
	if it.m != nil {
		found := false
		for _, k2 := range it.m.Keys {
			if sameKey(k, k2) {
				found = true
				break
			}
		}
		if !found {
			return ex.rangeNext(x, itv)
		}
	}
	return TupleV{ex.boolC(true), k, v}
}

func (ex *Exec) zeroOrNil(t types.Type) Value {
	if b, ok := t.(*types.Basic); ok && b.Kind() == types.Invalid {
		return nil
	}
	return ex.zero(t)
}

func sameKey(a, b Value) bool {
	ta, ok1 := a.(*smt.Term)
	tb, ok2 := b.(*smt.Term)
	if ok1 && ok2 {
		return ta == tb
	}
	return a == b
}

// ---- maps ----

func (ex *Exec) keyEq(a, b Value) *smt.Term {
	return ex.valuesEqual(a, b)
}

func (ex *Exec) mapFind(m *MapObj, k Value) int {
	if m == nil {
		return -1
	}
	if ex.race != nil {
		ex.race.accessMap(ex, m, false)
	}
	for i, k2 := range m.Keys {
		if ex.branch(ex.keyEq(k, k2)) {
			return i
		}
	}
	return -1
}

func (ex *Exec) mapGet(m *MapObj, k Value, vt types.Type) (Value, bool) {
	i := ex.mapFind(m, k)
	if i < 0 {
		return ex.zero(vt), false
	}
	return ex.load(m.Vals[i]), true
}

func (ex *Exec) mapSet(m *MapObj, k, v Value) {
	i := ex.mapFind(m, k)
	if i >= 0 {
		if m.Frozen != "" && !(m.Vals[i].Kids == nil && sameValue(m.Vals[i].V, v)) {
			ex.frozenMap(m)
		}
		if ex.race != nil {
			ex.race.accessMap(ex, m, true)
		}
		ex.storeRaw(m.Vals[i], v)
		return
	}
	if m.Frozen != "" {
		ex.frozenMap(m)
	}
	if ex.race != nil {
		ex.race.accessMap(ex, m, true)
	}
	l := ex.newLoc(m.VT)
	ex.storeRaw(l, v)
	m.Keys = append(m.Keys, k)
	m.Vals = append(m.Vals, l)
}

func (ex *Exec) mapDelete(m *MapObj, k Value) {
	i := ex.mapFind(m, k)
	if i < 0 {
		return
	}
	if m.Frozen != "" {
		ex.frozenMap(m)
	}
	if ex.race != nil {
		ex.race.accessMap(ex, m, true)
	}
	m.Keys = append(append([]Value(nil), m.Keys[:i]...), m.Keys[i+1:]...)
	m.Vals = append(append([]*Loc(nil), m.Vals[:i]...), m.Vals[i+1:]...)
}
