package sym

import (
	"fmt"
	"go/types"
	"math"
	"runtime/debug"
	"sort"
	"strings"
	"sync"
	"time"

	"golang.org/x/tools/go/ssa"

	"verif/engine/smt"
)

func NewEngine(prog *ssa.Program, modPath string, cfg Config) *Engine {
	if cfg.MaxSteps == 0 {
		cfg.MaxSteps = 400000
	}
	if cfg.MaxBlockVisit == 0 {
		cfg.MaxBlockVisit = 64
	}
	if cfg.MaxSched == 0 {
		cfg.MaxSched = 200
	}
	if cfg.MaxPaths == 0 {
		cfg.MaxPaths = 200000
	}
	if cfg.SolverName == "" {
		cfg.SolverName = "z3"
	}
	if cfg.TimeoutMs == 0 {
		cfg.TimeoutMs = 40000
	}
	if cfg.Workers == 0 {
		cfg.Workers = 8
	}
	return &Engine{Prog: prog, Cfg: cfg, ModPath: modPath, VTPath: modPath + "/internal/vt",
		fnInfos: map[*ssa.Function]*fnInfo{}, built: map[*ssa.Package]bool{},
		Sizes: types.SizesFor("gc", "amd64"), pbInfos: map[string]*pbMsgInfo{}}
}

type HarnessResult struct {
	Name         string
	Paths        []*PathResult
	Wall         time.Duration
	SolverTime   time.Duration
	Queries      map[string]int
	SolverErrors []string
	Truncated    bool
}

// Explore runs harness fn over all paths.
func (e *Engine) Explore(fn *ssa.Function, tierVals map[string]int) *HarnessResult {
	t0 := time.Now()
	hr := &HarnessResult{Name: fn.Name(), Queries: map[string]int{}}
	var mu sync.Mutex
	cond := sync.NewCond(&mu)
	work := []PathSpec{{}}
	active := 0
	npaths := 0
	var wg sync.WaitGroup
	for w := 0; w < e.Cfg.Workers; w++ {
		wg.Add(1)
		go func() {
			defer wg.Done()
			var solver *smt.Solver
			defer func() {
				if solver != nil {
					mu.Lock()
					hr.SolverTime += solver.Time
					for k, v := range solver.Queries {
						hr.Queries[k.String()] += v
					}
					hr.SolverErrors = append(hr.SolverErrors, solver.Errors...)
					mu.Unlock()
					solver.Close()
				}
			}()
			for {
				mu.Lock()
				for len(work) == 0 && active > 0 {
					cond.Wait()
				}
				if len(work) == 0 {
					mu.Unlock()
					cond.Broadcast()
					return
				}
				spec := work[len(work)-1]
				work = work[:len(work)-1]
				active++
				npaths++
				over := npaths > e.Cfg.MaxPaths
				mu.Unlock()
				if over {
					mu.Lock()
					hr.Truncated = true
					active--
					work = nil
					mu.Unlock()
					cond.Broadcast()
					continue
				}
				if solver == nil {
					var err error
					solver, err = smt.NewSolver(e.Cfg.SolverName, e.Cfg.TimeoutMs)
					if err != nil {
						panic(err)
					}
				}
				res, pending := e.runPath(fn, spec, solver, tierVals)
				mu.Lock()
				hr.Paths = append(hr.Paths, res)
				work = append(work, pending...)
				active--
				mu.Unlock()
				cond.Broadcast()
			}
		}()
	}
	wg.Wait()
	sort.Slice(hr.Paths, func(i, j int) bool { return lessInts(hr.Paths[i].Decisions, hr.Paths[j].Decisions) })
	hr.Wall = time.Since(t0)
	return hr
}

func lessInts(a, b []int) bool {
	for i := 0; i < len(a) && i < len(b); i++ {
		if a[i] != b[i] {
			return a[i] < b[i]
		}
	}
	return len(a) < len(b)
}

func (e *Engine) runPath(fn *ssa.Function, spec PathSpec, solver *smt.Solver, tierVals map[string]int) (res *PathResult, pending []PathSpec) {
	ex := &Exec{E: e, B: smt.NewBuilder(), S: solver,
		prefix: spec.Picks, replayVals: spec.Vals, concVals: map[int]uint64{},
		globals: map[*ssa.Global]*Loc{}, varCount: map[string]int{},
		mutexes: map[*Loc]*mutexState{}, wgs: map[*Loc]*wgState{}, onces: map[*Loc]*onceState{},
		ufApps: map[string][]ufApp{}, initDone: map[*ssa.Package]bool{}, pbCache: map[*Loc]*PRMsg{},
		tierVals: tierVals, sleep: map[string]footprint{}, allowLeak: true,
	}
	if e.Cfg.RaceDetect {
		ex.race = newRaceState()
	}
	ex.res = &PathResult{KFSeen: map[string]bool{}, Funcs: map[string]bool{}, Stubs: map[string]bool{}}
	res = ex.res
	for solver.Depth() > 0 {
		solver.Pop()
	}
	solver.Push()
	defer func() {
		defer func() {
			for solver.Depth() > 0 {
				solver.Pop()
			}
		}()
		res.Decisions = ex.decisions
		res.Steps = ex.steps
		pending = ex.pending
		if r := recover(); r != nil {
			switch pe := r.(type) {
			case pathEnd:
				res.Status = pe.st
				res.Reason = pe.reason
				if pe.st == StPanic {
					// an uncaught Go panic is a violation of the implicit "no panic" obligation
					res.Violations = append(res.Violations, Violation{Label: "no-panic", Detail: pe.reason, Model: ex.safeModel(),
						Trace: append([]string(nil), ex.trace...)})
				}
			default:
				res.Status = StInconclusive
				res.Reason = fmt.Sprintf("engine error: %v\n%s", r, trimLines(string(debug.Stack()), 30)) + ex.where()
			}
		}
	}()
	main := ex.newG("main")
	main.isMain = true
	ex.cur = main
	ex.runInits(main, fn.Pkg)
	ex.pushFrame(main, fn, nil, nil, func(Value) {})
	ex.schedule()
	// terminal state
	var blocked []string
	for _, g := range ex.gs {
		if !g.done {
			desc := "?"
			if g.pending != nil {
				desc = g.pending.Kind
			}
			w := ""
			if fr := g.top(); fr != nil {
				w = fr.fn.String()
			}
			blocked = append(blocked, fmt.Sprintf("g%d(%s) blocked at %s in %s", g.id, g.name, desc, w))
		}
	}
	if len(blocked) > 0 {
		if !main.done {
			res.Violations = append(res.Violations, Violation{Label: "deadlock", Detail: strings.Join(blocked, "; "), Model: ex.safeModel(),
				Trace: append([]string(nil), ex.trace...)})
		} else if !ex.allowLeak {
			res.Violations = append(res.Violations, Violation{Label: "goroutine-leak", Detail: strings.Join(blocked, "; "), Model: ex.safeModel(),
				Trace: append([]string(nil), ex.trace...)})
		}
	}
	if ex.race != nil {
		for _, r := range ex.race.reports {
			res.Violations = append(res.Violations, Violation{Label: "data-race", Detail: r, Model: ex.safeModel(),
				Trace: append([]string(nil), ex.trace...)})
		}
	}
	// model of the final path condition, for native validation
	if solver.Check() == smt.Sat {
		res.Model = ex.model()
		var ts []*smt.Term
		var keys []Observation
		for _, o := range res.Obs {
			if o.Term != nil {
				ts = append(ts, o.Term)
				keys = append(keys, o)
			}
		}
		res.ObsVals = map[string]any{}
		for _, o := range res.Obs {
			if o.Term == nil {
				res.ObsVals[o.Key] = o.Str
			}
		}
		if vals, err := solver.Values(ts); err == nil {
			for i, o := range keys {
				res.ObsVals[o.Key] = renderObs(o, vals[i])
			}
		}
	}
	res.Status = StDone
	return
}

func renderObs(o Observation, v smt.ModelVal) string {
	switch v.Sort.K {
	case smt.KBool:
		return fmt.Sprint(v.U == 1)
	case smt.KStr:
		return fmt.Sprintf("%q", v.S)
	case smt.KFP:
		if v.Sort.W == 32 {
			return fmt.Sprintf("f32:%d", v.U)
		}
		return fmt.Sprintf("f64:%d", v.U)
	}
	if o.Str == "intf32" || o.Str == "intf64" {
		sh := uint(64 - smt.IntFW)
		iv := int64(v.U<<sh) >> sh
		if o.Str == "intf32" {
			return fmt.Sprintf("f32:%d", math.Float32bits(float32(iv)))
		}
		return fmt.Sprintf("f64:%d", math.Float64bits(float64(iv)))
	}
	if o.Str == "strord" {
		return fmt.Sprintf("%q", ordString(v.U))
	}
	if o.Str == "signed" {
		w := v.Sort.W
		if w < 64 {
			sh := uint(64 - w)
			return fmt.Sprint(int64(v.U<<sh) >> sh)
		}
		return fmt.Sprint(int64(v.U))
	}
	return fmt.Sprint(v.U)
}

func (ex *Exec) safeModel() map[string]any {
	defer func() { recover() }()
	if ex.S.Check() == smt.Sat {
		return ex.model()
	}
	return nil
}

func trimLines(s string, n int) string {
	ls := strings.Split(s, "\n")
	if len(ls) > n {
		ls = ls[:n]
	}
	return strings.Join(ls, "\n")
}

// ---- package initialisation and globals ----

func (ex *Exec) runInits(g *G, pkg *ssa.Package) {
	if pkg == nil {
		return
	}
	init := pkg.Func("init")
	if init == nil {
		return
	}
	ex.callFunc(g, init, nil, nil, func(Value) {}, false, nil, nil)
	ex.schedule()
	if len(g.frames) != 0 || g.pending != nil {
		ex.unsupported("package initialisation did not complete")
	}
	g.done = false
}

func (ex *Exec) initGlobal(gl *ssa.Global, l *Loc) {
	if gl.Pkg == nil {
		return
	}
	path := gl.Pkg.Pkg.Path()
	key := path + "." + gl.Name()
	switch key {
	case "context.Canceled":
		l.V = ex.errIface(&ErrObj{Kind: "ctx", Msg: "context canceled"})
		return
	case "context.DeadlineExceeded":
		l.V = ex.errIface(&ErrObj{Kind: "ctx", Msg: "context deadline exceeded"})
		return
	case "io.EOF":
		l.V = ex.errIface(&ErrObj{Kind: "errors", Msg: "EOF"})
		return
	case "encoding/base64.RawURLEncoding", "encoding/base64.StdEncoding", "encoding/base64.URLEncoding", "encoding/base64.RawStdEncoding":
		ex.nloc++
		l.V = Ptr{&Loc{T: gl.Type().(*types.Pointer).Elem().(*types.Pointer).Elem(), ID: ex.nloc, V: &RngObj{}}}
		return
	case "io.ErrUnexpectedEOF":
		l.V = ex.errIface(&ErrObj{Kind: "errors", Msg: "unexpected EOF"})
		return
	}
	if strings.HasPrefix(path, ex.E.ModPath) {
		if ex.inPBFile(gl.Pos()) {
			ex.poison(l, key)
		}
		return // initialised by the package's init function
	}
	if strings.HasSuffix(gl.Name(), "init$guard") {
		return
	}
	ex.poison(l, key)
}

func (ex *Exec) poison(l *Loc, why string) {
	if l.Ghost == nil {
		l.Ghost = map[string]Value{}
	}
	l.Ghost["poison"] = ex.strC(why)
	for _, k := range l.Kids {
		ex.poison(k, why)
	}
}

func (ex *Exec) dependencyGlobal(pkgPath, name string) *Loc {
	p := ex.E.Prog.ImportedPackage(pkgPath)
	if p == nil {
		ex.unsupported("package " + pkgPath + " is not loaded")
	}
	gl, ok := p.Members[name].(*ssa.Global)
	if !ok {
		ex.unsupported("no global " + pkgPath + "." + name)
	}
	return ex.global(gl)
}

// noteAccess is the hook for the race monitor and poison checks.
func (ex *Exec) noteAccess(l *Loc, write bool) {
	if l.Ghost != nil {
		if p, ok := l.Ghost["poison"]; ok && !write {
			s, _ := concStr(p)
			ex.unsupported("read of un-modelled dependency global " + s)
		}
		if write {
			delete(l.Ghost, "poison")
		}
	}
	if ex.race != nil {
		ex.race.access(ex, l, write)
	}
}

func (ex *Exec) freeze(l *Loc, label string) {
	ex.frozenN++
	ex.freezing = label
	ex.walkMsg(l, func(c *Loc) { c.Frozen = label }, map[*Loc]bool{})
	ex.freezing = ""
}

func (ex *Exec) frozenMap(m *MapObj) {
	ex.res.Violations = append(ex.res.Violations, Violation{Label: "frozen-store:" + m.Frozen,
		Detail: "write to a map of a message that was handed out (" + m.Frozen + ")" + ex.where(), Model: ex.safeModel()})
	m.Frozen = ""
}

// walkMsg visits every location reachable from l through pointers, slices and maps.
func (ex *Exec) walkMsg(l *Loc, f func(*Loc), seen map[*Loc]bool) {
	if l == nil || seen[l] {
		return
	}
	seen[l] = true
	f(l)
	for _, k := range l.Kids {
		ex.walkMsg(k, f, seen)
	}
	if l.Kids == nil {
		ex.walkVal(l.V, f, seen)
	}
}

func (ex *Exec) walkVal(v Value, f func(*Loc), seen map[*Loc]bool) {
	switch x := v.(type) {
	case Ptr:
		ex.walkMsg(x.L, f, seen)
	case SliceV:
		if x.Arr != nil {
			// only the visible elements: a later write into the spare capacity beyond len cannot be observed
			// through the message that was handed out (and does not reproduce natively)
			for i := 0; i < x.Len; i++ {
				ex.walkMsg(x.Arr.Kids[x.Off+i], f, seen)
			}
		}
	case MapV:
		if x.M != nil {
			if ex.freezing != "" {
				x.M.Frozen = ex.freezing
			}
			for _, l := range x.M.Vals {
				ex.walkMsg(l, f, seen)
			}
		}
	case IfaceV:
		ex.walkVal(x.V, f, seen)
	case StructV:
		for _, e := range x.F {
			ex.walkVal(e, f, seen)
		}
	}
}

func (ex *Exec) frozenStore(l *Loc) {
	ex.res.Violations = append(ex.res.Violations, Violation{Label: "frozen-store:" + l.Frozen,
		Detail: "store into a message that was handed out (" + l.Frozen + ")" + ex.where(), Model: ex.safeModel()})
	// report once per location
	l.Frozen = ""
}
