package sym

import (
	"fmt"

	"golang.org/x/tools/go/ssa"

	"verif/engine/smt"
)

// vtCall implements package vt symbolically.
func (ex *Exec) vtCall(g *G, fn *ssa.Function, args []Value, done func(Value)) {
	B := ex.B
	name := fn.Name()
	str := func(i int) string {
		s, ok := concStr(args[i])
		if !ok {
			ex.unsupported("vt." + name + ": non-constant name/label")
		}
		return s
	}
	switch name {
	case "Int64", "Int", "Uint64":
		done(ex.input(str(0), map[string]string{"Int64": "int64", "Int": "int", "Uint64": "uint64"}[name], smt.BV(64)))
	case "Int32":
		done(ex.input(str(0), "int32", smt.BV(32)))
	case "Uint32":
		done(ex.input(str(0), "uint32", smt.BV(32)))
	case "Uint8":
		done(ex.input(str(0), "uint8", smt.BV(8)))
	case "Bool":
		done(ex.input(str(0), "bool", smt.Bool))
	case "Str":
		done(ex.input(str(0), "string", smt.Str))
	case "StrOrd":
		done(ex.input(str(0), "strord", smt.BV(OrdW)))
	case "Float64":
		done(ex.input(str(0), "float64", smt.F64))
	case "Float32":
		done(ex.input(str(0), "float32", smt.F32))
	case "IntFloat32":
		// an integer-valued float32 of magnitude <= 2^16: a float variable constrained to be integral
		f := ex.input(str(0), "float32", smt.F32)
		lim := B.F32C(65536)
		ex.assume(B.And(B.FCmp(smt.OFEq, B.FUn(smt.OFRound, f), f), B.FCmp(smt.OFLe, B.FUn(smt.OFNeg, lim), f), B.FCmp(smt.OFLe, f, lim)))
		done(f)
	case "IntF":
		// an integer-valued float of magnitude <= 2^16 in the exact integer abstraction
		i := ex.input(str(0), "intf", smt.BV(smt.IntFW))
		lim := B.BVC(65536, smt.IntFW)
		ex.assume(B.And(B.Sle(B.Neg(lim), i), B.Sle(i, lim)))
		done(i)
	case "Choose":
		n, ok := concInt(args[1])
		if !ok || n <= 0 {
			ex.unsupported("vt.Choose with non-constant n")
		}
		in := ex.input(str(0), "choose", smt.BV(64))
		ex.freshChoice = true
		pick := ex.choose("vt.Choose", n, func(i int) *smt.Term { return B.Eq(in, ex.intC(i)) })
		ex.freshChoice = false
		done(ex.intC(pick))
	case "Time":
		ns := ex.input(str(0), "int64", smt.BV(64))
		lim := uint64(1) << 62
		ex.assume(B.And(B.Slt(B.BVC(-lim, 64), ns), B.Slt(ns, B.BVC(lim, 64))))
		done(ex.mkTime(ns))
	case "TimeWide":
		// any instant whose UnixNano is representable (about +-292 years around 1970)
		done(ex.mkTime(ex.input(str(0), "int64", smt.BV(64))))
	case "Dur":
		done(ex.input(str(0), "int64", smt.BV(64)))
	case "Msg":
		id := ex.input(str(0), "int64", smt.BV(64))
		ex.assume(B.Not(B.Eq(id, B.BVC(0, 64))))
		done(IfaceV{T: ex.tokenMsgType(), V: TokenV{ID: id}})
	case "MsgID":
		iv, _ := args[0].(IfaceV)
		if iv.T == nil && iv.V == nil {
			done(B.BVC(0, 64))
			return
		}
		if tk, ok := iv.V.(TokenV); ok {
			done(tk.ID)
			return
		}
		done(B.BVC(^uint64(0), 64))
	case "Err":
		id := ex.input(str(0), "int64", smt.BV(64))
		ex.assume(B.Not(B.Eq(id, B.BVC(0, 64))))
		done(ex.errIface(&ErrObj{Kind: "vt", Msg: "vt error", Sym: id}))
	case "ErrID":
		iv, _ := args[0].(IfaceV)
		if iv.T == nil && iv.V == nil {
			done(B.BVC(0, 64))
			return
		}
		if e, ok := iv.V.(*ErrObj); ok && e.Sym != nil {
			done(e.Sym)
			return
		}
		done(B.BVC(^uint64(0), 64))
	case "UFBool", "UFInt":
		fname := str(0)
		var ts []*smt.Term
		sl := args[1].(SliceV)
		for i := 0; i < sl.Len; i++ {
			ts = append(ts, ex.ufArg(ex.load(sl.Arr.Kids[sl.Off+i])))
		}
		so := smt.Bool
		kind := "bool"
		if name == "UFInt" {
			so = smt.BV(64)
			kind = "int64"
		}
		res := ex.input("uf:"+fname, kind, so)
		// Ackermann congruence with earlier applications
		for _, a := range ex.ufApps[fname] {
			if len(a.args) != len(ts) {
				ex.unsupported("UF " + fname + " applied with different arities")
			}
			var eqs []*smt.Term
			for i := range ts {
				if a.args[i].Sort != ts[i].Sort {
					eqs = append(eqs, B.False())
				} else {
					eqs = append(eqs, B.Eq(a.args[i], ts[i]))
				}
			}
			c := B.Implies(B.And(eqs...), B.Eq(a.res, res))
			if !c.IsTrue() {
				ex.S.Assert(c)
				ex.pcTerms = append(ex.pcTerms, c)
			}
		}
		ex.ufApps[fname] = append(ex.ufApps[fname], ufApp{args: ts, res: res})
		done(res)
	case "Assume":
		ex.assume(termOf(args[0]))
		done(nil)
	case "Assert":
		ex.assertProp(termOf(args[0]), str(1), "", nil)
		done(nil)
	case "AssertKF":
		ex.assertProp(termOf(args[0]), str(1), str(2), termOf(args[3]))
		done(nil)
	case "Reach":
		ex.res.Reached = append(ex.res.Reached, str(0))
		done(nil)
	case "Observe":
		key := str(0)
		k := ex.uniqObs(key)
		iv, _ := args[1].(IfaceV)
		if t, ok := iv.V.(*smt.Term); ok {
			ex.res.Obs = append(ex.res.Obs, Observation{Key: k, Term: t, Str: obsKind(iv)})
		} else if iv.T == nil && iv.V == nil {
			ex.res.Obs = append(ex.res.Obs, Observation{Key: k, Str: "nil"})
		} else {
			ex.res.Obs = append(ex.res.Obs, Observation{Key: k, Str: "?"})
		}
		done(nil)
	case "Try":
		f := args[0].(FuncV)
		if f.Fn == nil {
			ex.unsupported("vt.Try(nil)")
		}
		fr := ex.pushFrame(g, f.Fn, nil, f.Env, nil)
		fr.catch = true
		fr.onReturn = func(v Value) {
			// normal return: v == nil; panic: v is the message term (set by unwindStep)
			if v == nil {
				done(TupleV{ex.boolC(false), ex.strC("")})
			} else {
				done(TupleV{ex.boolC(true), v})
			}
		}
	case "And":
		sl := args[0].(SliceV)
		var ts []*smt.Term
		for i := 0; i < sl.Len; i++ {
			ts = append(ts, termOf(ex.load(sl.Arr.Kids[sl.Off+i])))
		}
		done(B.And(ts...))
	case "Or":
		sl := args[0].(SliceV)
		var ts []*smt.Term
		for i := 0; i < sl.Len; i++ {
			ts = append(ts, termOf(ex.load(sl.Arr.Kids[sl.Off+i])))
		}
		done(B.Or(ts...))
	case "Implies":
		done(B.Implies(termOf(args[0]), termOf(args[1])))
	case "Iff":
		done(B.Eq(termOf(args[0]), termOf(args[1])))
	case "IteInt", "IteInt64":
		done(B.Ite(termOf(args[0]), termOf(args[1]), termOf(args[2])))
	case "IteStr":
		a, b := termOf(args[1]), termOf(args[2])
		for _, x := range []**smt.Term{&a, &b} {
			if !isOrd(*x) {
				c, okc := concStr(*x)
				k, okp := parseOrd(c)
				if !okc || !okp {
					ex.unsupported("vt.IteStr of a non-ordinal string")
				}
				*x = B.BVC(k, OrdW)
			}
		}
		done(B.Ite(termOf(args[0]), a, b))
	case "NoLeak":
		ex.allowLeak = false
		done(nil)
	case "AllowLeak":
		ex.allowLeak = true
		done(nil)
	case "Unwind":
		// raises the loop unwinding bound and the step budget for harnesses that need long concrete loops
		n, ok := concInt(args[0])
		if !ok || n < 1 {
			ex.unsupported("vt.Unwind with non-constant bound")
		}
		ex.unwind = n
		if n*400 > ex.maxSteps {
			ex.maxSteps = n * 4000
		}
		done(nil)
	case "Settle":
		// "wait until every other goroutine has run as far as it can": enabled only when nothing else is
		g.pending = &VisOp{Kind: "settle", Simple: true, Enabled: func() bool { return ex.settling }, Fire: func() { done(nil) }}
	case "Yield":
		g.pending = &VisOp{Kind: "yield", Simple: true, Fire: func() { done(nil) }}
	case "Freeze":
		iv, _ := args[0].(IfaceV)
		if p, ok := iv.V.(Ptr); ok && p.L != nil {
			ex.freeze(p.L, str(1))
		}
		done(nil)
	case "CheckFrozen":
		done(nil)
	case "Register", "init":
		done(nil)
	case "Bound":
		k := str(0)
		if v, ok := ex.tierVals[k]; ok {
			done(ex.intC(v))
			return
		}
		q, _ := concInt(args[1])
		t, _ := concInt(args[2])
		if ex.tierVals["__thorough"] == 1 {
			done(ex.intC(t))
		} else {
			done(ex.intC(q))
		}
	default:
		ex.unsupported("vt." + name)
	}
}

func obsKind(iv IfaceV) string {
	if t, ok := iv.V.(*smt.Term); ok && isOrd(t) {
		return "strord"
	}
	if t, ok := iv.V.(*smt.Term); ok && isIntF(t) {
		if iv.T != nil && iv.T.String() == "float64" {
			return "intf64"
		}
		return "intf32"
	}
	if iv.T != nil && isSigned(iv.T) {
		return "signed"
	}
	return ""
}

func (ex *Exec) uniqObs(key string) string {
	n := ex.varCount["obs:"+key]
	ex.varCount["obs:"+key] = n + 1
	if n == 0 {
		return key
	}
	return fmt.Sprintf("%s#%d", key, n)
}

func (ex *Exec) ufArg(v Value) *smt.Term {
	if iv, ok := v.(IfaceV); ok {
		if iv.T == nil && iv.V == nil {
			return ex.B.BVC(0, 64)
		}
		v = iv.V
	}
	switch x := v.(type) {
	case *smt.Term:
		return x
	case TokenV:
		return x.ID
	case *ErrObj:
		if x.Sym != nil {
			return x.Sym
		}
	}
	ex.unsupported(fmt.Sprintf("UF argument of kind %T", v))
	return nil
}

// assertProp checks an assertion: the query pc ∧ ¬c.
func (ex *Exec) assertProp(c *smt.Term, label, kf string, kfCond *smt.Term) {
	ex.res.Asserts++
	if c.IsTrue() {
		ex.res.Discharged++
		return
	}
	nc := ex.B.Not(c)
	check := func(extra *smt.Term, kfid string) bool {
		// returns true if a counterexample exists
		ex.S.Push()
		ex.S.Assert(nc)
		if extra != nil {
			ex.S.Assert(extra)
		}
		r := ex.S.Check()
		found := false
		switch r {
		case smt.Sat:
			m := ex.model()
			ex.res.Violations = append(ex.res.Violations, Violation{Label: label, KF: kfid, Model: m,
				Trace: append([]string(nil), ex.trace...)})
			found = true
		case smt.Unknown:
			ex.S.Pop()
			panic(pathEnd{StInconclusive, "solver returned unknown for assertion " + label})
		}
		ex.S.Pop()
		return found
	}
	if kf == "" {
		if !check(nil, "") {
			ex.res.Discharged++
		}
	} else {
		// (a) outside the known finding's characteristic condition the assertion must hold
		out := check(ex.B.Not(kfCond), "")
		// (b) inside: report the known finding if it still exists
		in := check(kfCond, kf)
		if in {
			ex.res.KFSeen[kf] = true
		}
		if !out && !in {
			ex.res.Discharged++
		}
	}
	// continue under the assumption that the assertion holds
	ex.S.Assert(c)
	ex.pcTerms = append(ex.pcTerms, c)
	if ex.S.Check() == smt.Unsat {
		panic(pathEnd{StDone, "assertion " + label + " fails on every input of this path"})
	}
}
