#!/bin/bash
# usage: chk_mut.sh <seeded dir> [symgo check args...]  - triage on the scratch clone /tmp/repo-mut (not /repo)
d=$1; shift
n=$(basename $d); P=${n%%-*}
[ -d /tmp/repo-mut ] || git clone -q /repo /tmp/repo-mut
git -C /tmp/repo-mut fetch -q /repo main && git -C /tmp/repo-mut reset -q --hard FETCH_HEAD
git -C /tmp/repo-mut apply /verif/$d/patch.diff || { echo "patch does not apply"; exit 4; }
cd /verif && SYMGO_REPO=/tmp/repo-mut SYMGO_OUT=/tmp/symgo-out timeout 3000 ./bin/symgo check -p $P -tier quick "$@" 2>&1 | grep -E "^harness|violated|^VIOLATION|^OK|^INCONCLUSIVE|^BROKEN" | cut -c1-260 | tail -12
git -C /tmp/repo-mut checkout -- .
