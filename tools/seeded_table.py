#!/usr/bin/env python3
"""Regenerates the seeded-changes table of DESIGN.md (between the seeded-table markers) from seeded/*/meta.json."""
import json, glob, os, re
rows = []
def key(d):
    n = os.path.basename(d); p, _, k = n.partition('-'); return (p, int(k or 1))
for d in sorted(glob.glob('/verif/seeded/*'), key=key):
    m = json.load(open(d + '/meta.json'))
    def cell(s, n):
        s = re.sub(r'\s+', ' ', str(s)).replace('|', '/')
        return s if len(s) <= n else s[:n - 1] + '…'
    labels = set(); harnesses = set()
    for l in m.get('check_output', []):
        mo = re.search(r'violated: (\S+) label=(\S+)', l)
        if mo:
            harnesses.add(mo.group(1)); labels.add(mo.group(2))
    rows.append('| %s | %s | %s | exit %s: %s (%s) |' % (os.path.basename(d), cell(m.get('summary', ''), 260), cell(m.get('needs_to_manifest', ''), 200),
                m.get('check_exit'), ', '.join(sorted(harnesses)) or '-', cell(', '.join(sorted(labels)), 160)))
tab = '| id | change | needs | caught by (labels) |\n|----|--------|-------|--------------------|\n' + '\n'.join(rows) + '\n'
p = '/verif/DESIGN.md'
s = open(p).read()
b, e = '<!-- seeded-table:begin -->\n', '<!-- seeded-table:end -->\n'
assert b in s and e in s
s = s[:s.index(b) + len(b)] + tab + s[s.index(e):]
open(p, 'w').write(s)
print(len(rows), 'rows')
