#!/bin/bash
# re-runs the property's quick check against every stored seeded change (or the ones named) and records the outcome
set -u
cd /verif
for d in ${@:-$(ls -d seeded/*/)}; do
  d=${d%/}; n=$(basename $d); P=${n%%-*}
  git -C /repo apply --check $PWD/$d/patch.diff 2>/dev/null || { echo "$n: patch does not apply"; continue; }
  git -C /repo apply $PWD/$d/patch.diff
  timeout 3000 ./bin/symgo check -p $P -tier quick > /tmp/rerun_$n.txt 2>&1; rc=$?
  git -C /repo checkout -- .
  git -C /verif checkout -- evidence/$P.json 2>/dev/null  # the evidence of a run against a seeded change is not evidence about /repo
  python3 - "$d" "$rc" <<'PY'
import json,sys
d,rc=sys.argv[1],int(sys.argv[2])
m=json.load(open(d+'/meta.json'))
m['check_exit']=rc; m['check_detected']=(rc==1)
n=d.split('/')[-1]
m['check_output']=[l.strip()[:300] for l in open('/tmp/rerun_%s.txt'%n) if l.startswith('VIOLATION') or 'violated:' in l][:8]
json.dump(m,open(d+'/meta.json','w'),indent=1)
PY
  echo "$n: exit $rc $(grep -c '^VIOLATION' /tmp/rerun_$n.txt) violation lines"
done
