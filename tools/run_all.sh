#!/bin/bash
# runs every claimed check (quick by default) and prints a summary line per property
TIER=${1:-quick}
cd /verif
for id in $(python3 -c "import json; print(' '.join(c['property_id'] for c in json.load(open('MANIFEST.json'))['checks']))"); do
  s=$(date +%s)
  timeout 7200 ./bin/symgo check -p $id -tier $TIER > /tmp/runall_$id.txt 2>&1; rc=$?
  e=$(date +%s)
  echo "$id exit=$rc wall=$((e-s))s $(grep -c '^KNOWN-FINDING' /tmp/runall_$id.txt) kf $(grep -E '^(OK|VIOLATION|INCONCLUSIVE|BROKEN)' /tmp/runall_$id.txt | head -2 | cut -c1-160 | tr '\n' ' ')"
done
