#!/usr/bin/env python3
"""Generates /verif/MANIFEST.json from the table below and validates it."""
import json, subprocess, sys, os

CLAIMED = {
 # id: (design_ref, level text, level note, technique)
 "C18": ("DESIGN.md 5/C18",
   "Bounded symbolic execution of the real pkg/time functions (CompareAscending, cutPeriod, cut CompareTo, PeriodsIntersect/Connected) over full-width 64/32-bit timestamp fields; segmentpb ActiveAt/MagnitudeAt/Duration/Cut/Shift/Max/Sum on lists of <=3 (thorough 4) segments with symbolic durations and integer-valued magnitudes (Shift 2 (3), Sum of 2 (3) lists) against pointwise reference semantics (magnitude at every instant, support, translation, arguments unmodified); modepb MagnitudeAt/Shift/Cut with start times (1 (2) segments): the solver shows every assertion for all values, or returns a counterexample that is replayed natively.",
   "Trusted: go/ssa, the symgo interpreter (validated per run by native replay of sampled paths), z3, ghost nanoseconds for durationpb/timestamppb, integer-valued floats of magnitude <= 2^16 for magnitudes. Bounds: periods have start<=end; nanos normalised; instants within +-2^62 ns; mode-level Sum not encoded.",
   "SSA symbolic execution + SMT (z3), native replay of counterexamples"),
}

CLAIMED.update({
 "C08": ("DESIGN.md 5/C08",
   "CollectionChange.include, ReadRequest.Exclude executed symbolically for an UNINTERPRETED predicate P(id,value) (Ackermann-encoded), arbitrary ids/values and all change kinds: delivered edit equals the edit of the filtered collection, and include never alters the change it shares between subscribers. One step from an arbitrary view gives histories by induction. Real Pull goroutines: folded filtered stream == filtered List (both delivery modes), two subscribers with different predicates, include combined with a read mask that hides the predicate's field; the booking server's booking_intersects filter (folded PullBookings == ListBookings for no / unbounded / bounded / half-bounded periods).",
   "Trusted: symgo, z3. The Pull goroutine around include and List's itemSlice are covered under C04/C01 harnesses when present; here the decision kernel.",
   "SSA symbolic execution + SMT with uninterpreted predicate, native replay"),
 "C09": ("DESIGN.md 5/C09",
   "mergeChanges on arbitrary consecutive valid changes (2 and 3 in a row) of one id against an arbitrary view; the mergeCollectionExcess and DropExcess goroutines executed in the symbolic concurrency runtime between a producer (K=4, thorough 5, valid events over two ids, then a sentinel) and a consumer receiving at every possible pace: fold equivalence, old-value chaining, in-order subsequence ending in the most recent message; a never-receiving subscriber never blocks writers; a stalled backpressured subscriber makes Value.Set fail when its (modelled) 5 s timeout fires instead of hanging; two concurrent senders on a bus with an uncollected cancelled listener deliver every event exactly once to live listeners (race monitor on); a subscriber that has not taken its seed items yet blocks neither writers nor readers.",
   "Trusted: symgo concurrency runtime (timers fire only when nothing else can run), z3. Wall-clock latency is outside the claim: 'without waiting' is checked as 'never blocked'.",
   "SSA symbolic execution with symbolic scheduler + SMT, native replay"),
 "C16": ("DESIGN.md 5/C16",
   "cmp combinators with arbitrary (symbolic) comparer answers; FloatValueApprox in IEEE float64 (reflexive, symmetric), DurationValueWithin/TimeValueWithin on full 64-bit nanosecond values against a no-overflow reference (instants within +-2^62 ns; symmetry and rejection also for instants up to ~584 years apart, where time.Sub saturates); own-kind-only clause and agreement of the default comparer with proto.Equal over the protobuf reflection model; resource-level de-duplication: Value.Pull / Collection.Pull with an exact, a NON-TRANSITIVE tolerance or no equivalence, with and without read mask, 2 (3) writes: delivered iff not equivalent to what the subscriber holds.",
   "Trusted: symgo + protobuf model over generated structs (validated by native replay), IEEE identities |x-y|=|y-x| and commutativity of math.Min/Max used for canonicalisation, durationpb/timestamppb ghost nanoseconds; instants within +-2^62 ns. Unknown fields outside the claim.",
   "SSA symbolic execution + SMT (FP and BV theories), native replay"),
 "C17": ("DESIGN.md 5/C17",
   "group.Execute for every strategy x 0..3 (thorough 4) members x symbolic success flags x every completion order (scheduler choices explored exhaustively with sleep-set reduction; 4 members exceed 1.5M paths and are outside the claim): thresholds, result placement, error identity, no panic, no leaked goroutine; the light and on-off group servers' Get/Update with independently chosen read and write strategies (All/Most/Any), 2 (3) members with symbolic failures behind a fake client, and a member that only returns on cancellation (the group call must return); with Most/Any one failure of two cancels nobody and the later success counts.",
   "Trusted: symgo concurrency runtime (goroutines, channels, WaitGroup, context), z3; race monitor on. Pull through the group servers outside.",
   "SSA symbolic execution with symbolic scheduler + SMT, native replay"),
})

CLAIMED.update({
 "C12": ("DESIGN.md 5/C12",
   "Router registry: one arbitrary Add/Remove/Has/Get on an arbitrary registry (symbolic names, opaque clients) against a map model incl. change callbacks; Get with fallback/factory fakes answering arbitrarily; two concurrent first Gets and three concurrent Remove/Add of one name under every interleaving (results and change callbacks explainable by one order); replaceEmptyNameField over the protobuf reflection model (symbolic names, and concrete white-space names, which are names).",
   "Plus C12-C: on every run symgo enumerates every generated router type of pkg/trait/* from the current tree's go/types, GENERATES a fake client and a harness per router (65 routers, ~150 methods) and executes every unary and server-streaming forwarder with a symbolic request name: exactly one call on the named client, same method, same request object, response/error/header/messages/trailer pass through, caller errors cancel the forwarded request, unknown names give NotFound and touch no client, and an RPC of the service descriptor without a forwarder (only promoted from Unimplemented...Server) is a violation. Trusted: symgo (+ concurrency runtime, protobuf model), z3; native validation of the generated harnesses is sampled (6 packages per run, rotated by seed, plus every package with a counterexample). Outside: the *_wrap.pb.go wrappers and a byte-for-byte generator-freshness diff (its observable consequence - unrouted or misrouted RPCs - is what is checked).",
   "SSA symbolic execution + SMT, symbolic scheduler, native replay"),
 "C20": ("DESIGN.md 5/C20",
   "Kernels of the trait models executed symbolically: parent traitUnion/traitRemove on sorted symbolic name lists (set algebra), vending updateStock (units, floor at zero, nil-safety, error reporting), unitpb.Convert (identity / category errors), fan speed DeriveValues (table consistency under precedence, no panic for 0..3 presets), mode relativeAdjustment (modular step over full int32), NewModelModes configuration, enter/leave totals, meter RecordReading/Reset times, vending constructor plumbing and DispenseInstantly end to end; publication version / acknowledgement lifecycle through the PublicationApi server (real md5 over concrete content, symbolic operation sequence).",
   "Trusted: symgo, z3, ordinal-string abstraction for names that are only compared. Outside: float rounding in real unit conversion (symbolic FP multiply+divide is undecided by all back ends).",
   "SSA symbolic execution + SMT (BV, FP), native replay"),
})

CLAIMED.update({
 "C05": ("DESIGN.md 5/C05",
   "masks.FieldUpdater Validate/Merge (with the real fmutils and fieldmaskpb code interpreted over the protobuf model) on symbolic stored/written messages for enumerated update / writable / reset masks: per-leaf frame and write conditions, rejection of invalid and read-only masks, empty-mask no-op. Groups: scalars (implicit and explicit presence), nested message leaves, parent+child and duplicate paths, sibling fields whose names are textual prefixes of each other; repeated/map/oneof groups (frame, nil-mask replacement, FieldMask append semantics); two-write sequences through Value/Collection with writable fields and per-write extra writable paths; a masked write is stored exactly whatever equivalence the resource de-duplicates events with.",
   "Trusted: symgo + protobuf model over generated structs (validated per run against the real library on sampled paths), z3. Bound: masks of <=2 paths from the listed universe, nesting depth 2; oneof/repeated/map groups under update masks not yet encoded; through-resource repetition under C01.",
   "SSA symbolic execution + SMT over a protobuf model, native replay"),
 "C06": ("DESIGN.md 5/C06",
   "masks.ResponseFilter Filter/FilterClone/Validate on symbolic messages (scalars, optional, nested, repeated scalar and message lists, map, oneof) for 13 read masks incl. nil/empty/parent+child/through-list, plus 7 corrupted masks: result equals the leaf-wise projection, argument never altered, clone shares nothing, Validate rejects, reads never panic. Resource level: Value Get/Pull, Collection Get/List/Pull (seed, UPDATE old+new, REMOVE old, ADD new) and PullID with 5 read masks against an independent projection, stored messages unchanged; two backpressured subscribers with different masks each get their own projection.",
   "Trusted: as C05. Bound: list length <=2, one map entry, the listed masks.",
   "SSA symbolic execution + SMT over a protobuf model, native replay"),
})

CLAIMED.update({
 "C01": ("DESIGN.md 5/C01",
   "One arbitrary Set on an arbitrary Value and one arbitrary Get/Add/Update/Delete on an arbitrary Collection (0..2 items, symbolic ids and bodies) with option subsets (update mask x {reset, expected value, expected check ok/fail, before/after interceptor, write time}; create-if-absent, expect-absent, allow-missing, generated ids) against an in-harness reference; failed calls change nothing; List sorted; generated ids non-empty/unused/reported once/usable; the same step under an arbitrary two-entry id interceptor (not assumed idempotent) behaves as the plain map at key I(id); generated ids under a canonicalising interceptor are usable; List under include x read mask equals filter-then-project of the reference; a write under a nested update mask clears/sets exactly the named leaf; a reset mask naming an unknown field is refused and changes nothing. A single step from an arbitrary state gives sequences by induction.",
   "Trusted: symgo + protobuf model + real masks/fmutils code, z3, ordinal ids, arbitrary rng bytes and clock. Bound quick: option subsets of size <=2 plus all six, 5 update masks, bodies with 2 implicit scalars + 1 optional; thorough: all 64 subsets, 3 items.",
   "SSA symbolic execution + SMT vs reference model, native replay"),
 "C04": ("DESIGN.md 5/C04",
   "Real Pull goroutines (bus, listener, forwarder) executed in the symbolic concurrency runtime with a consuming goroutine and one writer under every interleaving: seeds first/sorted/flagged/last-seed, exactly one event per successful write in write order with id, kind, old and new value and write time; none for failed writes; updates-only has no seed; no goroutine outlives the cancelled subscription.",
   "Trusted: symgo concurrency runtime with sleep-set reduction (DRF between sync ops), protobuf model, z3. Bound: Value 2 writes, Collection 0..2 seed items + 1 write (with and without read mask); equivalence suppression (exact / tolerance / none, with read mask, 2-3 writes); a subscriber registering behind a cancelled, uncollected one during a publication gets every later write exactly once; the seed of a later subscription carries the stored change time (WithWriteTime); two subscribers with different read masks each get their own projection; event time for writes without WithWriteTime not asserted.",
   "SSA symbolic execution with symbolic scheduler + SMT, native replay"),
})

CLAIMED.update({
 "C02": ("DESIGN.md 5/C02",
   "2 concurrent writers on one Value/Collection (3 symbolic-delta writers did not finish in 45 minutes and are outside the claim) executed in the symbolic concurrency runtime under every interleaving of their lock/unlock/channel operations with symbolic data: delta interceptors lose no increment, compare-and-set admits at most one winner, two Adds of one id never both succeed, two delta upserts of a possibly absent id lose nothing (interceptors use the in-place += idiom, so a write applied twice is visible), Delete-with-expectation vs Update only in legal orders; losers report one of the race statuses.",
   "Trusted: symgo concurrency runtime (RWMutex without writer preference, sleep-set reduction, DRF between sync ops), protobuf model, z3. Counterexamples are confirmed natively by stress replay (up to 400 runs) because the native scheduler cannot be forced without hooks.",
   "SSA symbolic execution with symbolic scheduler + SMT, native stress replay"),
})

CLAIMED.update({
 "C10": ("DESIGN.md 5/C10",
   "Bus.Send/Listen/collect, listener.send/stop, DropExcess, mergeCollectionExcess and the Value/Collection/PullID forwarders executed as goroutines with a cancel issued by a separate goroutine (i.e. at every scheduling point), writers active, consumers that stop receiving and then cancel: no panic (send on / close of closed channel), no deadlock, channel observed closed, every goroutine ends, live listeners get every event exactly once in order, PullID ends when its item is removed; a subscription opened while a writer is active never deadlocks with it (a recursive read lock blocks behind a waiting writer in the model, as in Go).",
   "Trusted: symgo concurrency runtime with sleep sets, z3. Bound: <=2 (thorough 3) listeners, <=2 sends, 1 cancel; Value: 1-2 writes, consumer stopping after 0-2 events.",
   "SSA symbolic execution with symbolic scheduler + SMT, native stress replay"),
})

CLAIMED.update({
 "C03": ("DESIGN.md 5/C03",
   "Value.Pull / Collection.Pull subscriptions opened at every possible moment relative to concurrent writers (symbolic scheduler), reader keeps receiving; quiescence by a sentinel write: last delivered value == Get (Value, backpressure, 1 writer x 2 writes and 2 writers x 1 write), lossy Value delivery eventually holds the final value, folded Collection view == List (1 writer, 3-5 operations incl. delete/add/delete of one id, both delivery modes); a Delete and an Add of one id by two writers (no event overtakes a later commit); a Value moved away from and back to its seeded value under an equivalence; a subscription opened exactly between commit and publication of an Add (window forced through a hook).",
   "Trusted: symgo concurrency runtime with sleep sets, z3. The publish-after-unlock defects are recorded as KF-C03-1 (two writers, Value) and KF-C03-2 (one writer, Collection, lossy subscriber) and any other violation still alarms. Bound: <=2 writers; PullID, read masks and updates-only are outside.",
   "SSA symbolic execution with symbolic scheduler + SMT, native stress replay"),
})

CLAIMED.update({
 "C15": ("DESIGN.md 5/C15",
   "Every paged List RPC body (electric ListModes, hail ListHails, parent ListChildren, publication ListPublications, vending ListConsumables/ListInventory, waste ListWasteRecords) executed for ONE paging step from an arbitrary position: arbitrary sorted symbolic ids (0..4, thorough 6), a token that is empty / names an arbitrary key (present or not) / is malformed, arbitrary int32 page size: contiguity, size cap, total_size, next-token-names-last-item, progress, errors for malformed tokens and negative sizes, no panic; capPageSize over the whole int range. Contiguity + progress give, by induction, every item exactly once and termination. Plus whole walks: over-cap page sizes on 1001 items, and ListChildren over concrete mixed-case names (the code's own string functions run on them).",
   "Trusted: symgo, protobuf model, ordinal ids, the page-token codec (proto.Marshal+base64) modelled as an inverse pair on a tagged ordinal, sort.Search/sort.Slice interpreted/modelled, z3. Bound: n<=4 (6) items.",
   "SSA symbolic execution + SMT, inductive single step, native replay"),
})

CLAIMED.update({
 "C19": ("DESIGN.md 5/C19",
   "electricpb.Model: one arbitrary operation (CreateMode, AddMode, UpdateMode with mask nil/normal/title, DeleteMode with/without allow-missing, SetActiveMode, ChangeActiveMode, ChangeToNormalMode) with symbolic arguments from an arbitrary invariant-satisfying state (0..3 modes, thorough 4; arbitrary Normal flags and active mode, whose stored copy may carry a stale Normal flag): invariants re-established, documented outcomes (NotFound, allow-missing, start-time stamping with the model clock, clear selects normal). Induction gives every sequence; four pairs of conflicting operations under every interleaving for the concurrent clause, and two concurrent allow-missing deletes through the MemorySettings server.",
   "Trusted: symgo, protobuf model, real resource layer, z3. Mode ids are fixed distinct ordinals (they matter only up to equality/order); the ElectricApi/MemorySettingsApi server wrappers are thin and not separately encoded.",
   "SSA symbolic execution + SMT, inductive single step, symbolic scheduler, native replay"),
})

CLAIMED.update({
 "C07": ("DESIGN.md 5/C07",
   "Heap-level isolation on the engine's own store: every message handed out (Get/List/Set/Update/Add/Delete results, model snapshots) is frozen - any later store into a cell or map reachable from it is a violation - and the store must be unaffected when the caller scribbles over a message after writing it; over 3-4 operation sequences on Value, Collection, parent (AddChildTrait/RemoveChildTrait incl. spare-capacity slices), metadata (UpdateTraitMetadata/MergeMetadata), the enter/leave Pull seed, openclose PullPositions under read masks (and GetPositions/GetPosition under masks below states), the booking server's check-in/out with a caller-supplied timestamp and the electric model's modes (every mode read frozen across two arbitrary later operations); plus one GENERATED harness per write/read/pull method triple of every trait Model found in the current tree (14 triples in 13 packages): populated message written, scribbled over, read, subscribed, read under two masks, written again - everything that crossed the API frozen and deep-compared.",
   "Trusted: symgo heap model (slice capacity growth mirrors the Go runtime's size classes), protobuf model, z3. Natively reproduced by deep-copy-and-compare. Collection-shaped trait models (hail, publication, consumables, stock, bookings) are driven through one shared isolation driver with hand-written adapters; wastepb is not driven; time.AfterFunc callbacks never run.",
   "SSA symbolic execution with heap freeze monitor + SMT, native replay"),
})

CLAIMED.update({
 "C11": ("DESIGN.md 5/C11",
   "Happens-before race monitor inside the symbolic concurrency runtime: vector clocks per goroutine and per synchronisation object (mutex/RWMutex, channel, WaitGroup, context, go), an access history per heap cell and map touched by the interpreted code; two accesses to one cell, one a write, unordered by happens-before on a feasible schedule are reported with both sites. Workloads: Value writer/reader/subscriber with interceptors reading their arguments, Collection generated-id adds, update/delete/get, pull readers, two senders on a bus with an uncollected listener, a conditional Delete racing an Update, router registry, parent and electric models (readers clone what they read so every field is touched); plus one GENERATED writer/reader/subscriber workload per trait Model method triple found in the current tree.",
   "Trusted: symgo runtime; scheduler switches only at synchronisation operations (complete for the bound by the DRF argument). Native confirmation by go test -race naming the same function. Outside: pkg/wrap streams, group servers, anything inside stubbed libraries, workloads beyond 3-4 goroutines.",
   "SSA symbolic execution with vector-clock race monitor + SMT, native replay under the Go race detector"),
})

NOT_YET = {}

NA = {
 "C13": "Oracle is a real gRPC/HTTP2 connection (bufconn transport, flow control, goroutines inside grpc-go); it cannot be encoded for the solver and nothing else can stand in for it without becoming a second implementation.",
 "C14": "Lives in wrap + generated handlers + grpc-go metadata/context plumbing + reflect for ~30 servers; beyond a hand-written SSA executor here. Its resource-level content is decided under C01/C04/C06/C16 and routing under C12.",
}

HOOK_COMMITS = ['9f5b9aee3d68b205f9cf8119296192a25c689ede', '7517a3649d38fb05a2c7620af21939d9a2ec2fda', 'b09be76464588693ae75f65e9b07634b07f48a88', '664163afdd6fe4d949581a217897a7f1d257def8']

def main():
    props = [json.loads(l)["id"] for l in open("/verif/properties.jsonl")]
    extra_na = {}
    p = "/verif/tools/not_built.json"
    if os.path.exists(p):
        extra_na = json.load(open(p))
    checks = []
    for pid in props:
        if pid in CLAIMED:
            ref, text, note, tech = CLAIMED[pid]
            checks.append({
                "property_id": pid,
                "quick_cmd": f"/verif/bin/symgo check -p {pid} -tier quick",
                "thorough_cmd": f"/verif/bin/symgo check -p {pid} -tier thorough",
                "evidence_file": f"/verif/evidence/{pid}.json",
                "replay_cmd_template": "/verif/bin/symgo replay {path}",
                "engine": "symgo",
                "level_claimed": {"category": "model_checking", "text": text, "design_ref": ref},
                "level_note": note,
                "technique": tech,
            })
    na = []
    for pid in props:
        if pid in CLAIMED:
            continue
        if pid in NA:
            na.append({"property_id": pid, "reason": NA[pid]})
        else:
            na.append({"property_id": pid, "reason": extra_na.get(pid, "check not built yet in this session (engine tier not reached); no claim is made")})
    m = {
        "version": 1,
        "setup_cmd": "cd /verif/engine && GOFLAGS=-mod=mod GOPROXY=off GOSUMDB=off GOTOOLCHAIN=local go build -o /verif/bin/symgo ./cmd/symgo",
        "hooks": {
            "guard": "verif",
            "enable": "go test -tags verif -overlay <harness overlay> (internal/verifhook.Yield is a no-op without the tag; with it the native stress replay installs verifhook.Hook to perturb the schedule at the named yield points)",
            "baseline_off_cmd": "cd /repo && GOFLAGS=-mod=mod go test -vet=off -count=1 ./...",
            "source_commits": HOOK_COMMITS,
            "add_only": True,
        },
        "engines": [{
            "name": "symgo", "path": "/verif/engine",
            "serves_properties": sorted(CLAIMED.keys()),
            "kind_free_text": "forking symbolic interpreter over go/ssa (x/tools v0.29.0) of /repo's working tree; SMT-LIB2 to z3 4.8.12 (-in, push/pop); harnesses injected into the real packages by overlay; counterexamples replayed natively with go test -overlay",
        }],
        "checks": checks,
        "not_applicable": na,
        "notes": "exit 0 = all obligations discharged within the stated bounds; exit 1 + VIOLATION line = natively reproduced counterexample; exit 2 = inconclusive or engine/native disagreement (never reported as pass).",
    }
    json.dump(m, open("/verif/MANIFEST.json", "w"), indent=1)
    r = subprocess.run(["python3-vt", "-c", "import json,jsonschema; jsonschema.validate(json.load(open('/verif/MANIFEST.json')), json.load(open('/root/.vp/MANIFEST.schema.json'))); print('manifest ok')"])
    sys.exit(r.returncode)

main()
