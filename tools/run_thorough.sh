#!/bin/bash
# runs the thorough check of each property (or those named) with a wall-clock cap and prints one line per property
CAP=${CAP:-1800}
cd /verif
ids=${@:-$(python3 -c "import json; print(' '.join(c['property_id'] for c in json.load(open('MANIFEST.json'))['checks']))")}
for id in $ids; do
  s=$(date +%s)
  timeout $CAP ./bin/symgo check -p $id -tier thorough > /tmp/thorough_$id.txt 2>&1; rc=$?
  e=$(date +%s)
  echo "$id exit=$rc wall=$((e-s))s $(grep -E '^(OK|VIOLATION|INCONCLUSIVE|BROKEN)' /tmp/thorough_$id.txt | head -2 | cut -c1-200 | tr '\n' ' ')"
done
