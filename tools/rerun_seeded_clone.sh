#!/bin/bash
# like rerun_seeded.sh but against the scratch clone /tmp/repo-mut (same commit as /repo), so that it can run while
# rerun_seeded.sh occupies /repo; evidence and replays go to /tmp/symgo-out. Records where it ran in meta.json.
set -u
cd /verif
[ -d /tmp/repo-mut ] || git clone -q /repo /tmp/repo-mut
git -C /tmp/repo-mut fetch -q /repo main && git -C /tmp/repo-mut reset -q --hard FETCH_HEAD
for d in "$@"; do
  d=${d%/}; n=$(basename $d); P=${n%%-*}
  [ -e /tmp/rerun_done_$n ] && continue
  touch /tmp/rerun_done_$n
  git -C /tmp/repo-mut apply --check $PWD/$d/patch.diff 2>/dev/null || { echo "$n: patch does not apply"; continue; }
  git -C /tmp/repo-mut apply $PWD/$d/patch.diff
  SYMGO_REPO=/tmp/repo-mut SYMGO_OUT=/tmp/symgo-out timeout 3000 ./bin/symgo check -p $P -tier quick > /tmp/rerunc_$n.txt 2>&1; rc=$?
  git -C /tmp/repo-mut checkout -- .
  python3 - "$d" "$rc" <<'PY'
import json,sys
d,rc=sys.argv[1],int(sys.argv[2])
m=json.load(open(d+'/meta.json'))
m['check_exit']=rc; m['check_detected']=(rc==1)
n=d.split('/')[-1]
m['check_output']=[l.strip()[:300].replace('/tmp/symgo-out','/verif') for l in open('/tmp/rerunc_%s.txt'%n) if l.startswith('VIOLATION') or 'violated:' in l][:8]
m['final_rerun']='scratch clone of /repo at the same commit (SYMGO_REPO), run in parallel with the /repo reruns to fit the time budget'
json.dump(m,open(d+'/meta.json','w'),indent=1)
PY
  echo "$n: exit $rc $(grep -c '^VIOLATION' /tmp/rerunc_$n.txt) violation lines (clone)"
done
