#!/bin/bash
# usage: try_mutant.sh <prop> <worktree> [check-args...]
# 1) confirms the seeded change in <worktree>: demo fails with it, passes without, existing tests pass with it
# 2) applies patch.diff to /repo, runs the property's quick check, undoes the patch
# 3) stores patch, demo and meta under /verif/seeded/<prop>[-n]/
set -u
export GOFLAGS=-mod=mod GOPROXY=off GOSUMDB=off GOTOOLCHAIN=local
P=$1; WT=$2; shift 2
OUT=/verif/seeded/$P
n=1; while [ -e "$OUT" ]; do n=$((n+1)); OUT=/verif/seeded/$P-$n; done
cd $WT || exit 2
DEMO=$(git status --porcelain | grep 'zz_seeded_demo_test.go' | awk '{print $2}' | head -1)
[ -z "$DEMO" ] && DEMO=$(find . -name zz_seeded_demo_test.go | head -1)
PKG=./$(dirname $DEMO)
echo "== demo $DEMO in $PKG"
# state: patch applied?
git apply -R --check patch.diff 2>/dev/null && APPLIED=1 || APPLIED=0
[ $APPLIED = 0 ] && git apply patch.diff
go build ./... || { echo "BUILD FAILS with change"; exit 3; }
go test -count=1 -run 'TestSeededDemo' $PKG > /tmp/mut_with.txt 2>&1; WITH=$?
mv $DEMO /tmp/zz_demo_hold.go
go test -count=1 ./pkg/... ./internal/... > /tmp/mut_suite.txt 2>&1; SUITE=$?
mv /tmp/zz_demo_hold.go $DEMO
git apply -R patch.diff
go test -count=1 -run 'TestSeededDemo' $PKG > /tmp/mut_without.txt 2>&1; WITHOUT=$?
git apply patch.diff
echo "demo with change: exit $WITH (want !=0); without: exit $WITHOUT (want 0); existing suite with change: exit $SUITE (want 0)"
# my check (against /repo as the brief prescribes; MUT_REPO=<scratch clone of /repo> is for triage while /repo is busy)
REPO=${MUT_REPO:-/repo}
if [ "$REPO" != /repo ]; then
  git -C $REPO fetch -q /repo main && git -C $REPO reset -q --hard FETCH_HEAD
  export SYMGO_REPO=$REPO SYMGO_OUT=/tmp/symgo-out
fi
git -C $REPO apply $WT/patch.diff || { echo "patch does not apply to $REPO"; exit 4; }
cd /verif && timeout 3000 ./bin/symgo check -p $P -tier quick "$@" > /tmp/mut_check_$P.txt 2>&1; CHK=$?
cp /tmp/mut_check_$P.txt /tmp/mut_check.txt
git -C $REPO checkout -- .
[ "$REPO" = /repo ] && git -C /verif checkout -- evidence/$P.json 2>/dev/null  # the evidence of a run against a seeded change is not evidence about /repo
grep -E "^VIOLATION|^OK|^INCONCLUSIVE|^BROKEN|violated:" /tmp/mut_check.txt | cut -c1-300 | head -12
echo "check exit: $CHK"
mkdir -p $OUT
cp $WT/patch.diff $OUT/patch.diff
cp $WT/$DEMO $OUT/$(basename $DEMO)
python3 - "$P" "$WT" "$OUT" "$DEMO" "$WITH" "$WITHOUT" "$SUITE" "$CHK" <<'PY'
import json,sys,os
P,WT,OUT,DEMO,WITH,WITHOUT,SUITE,CHK=sys.argv[1:]
meta={}
try: meta=json.load(open(os.path.join(WT,'meta.json')))
except Exception as e: meta={"note":"agent meta.json unreadable: %s"%e}
viol=[l.strip() for l in open('/tmp/mut_check.txt') if l.startswith('VIOLATION') or 'violated:' in l][:8]
meta.update({"property":P,"demo_file":DEMO,
 "confirmed":{"demo_fails_with_change":int(WITH)!=0,"demo_passes_without_change":int(WITHOUT)==0,"existing_suite_passes_with_change":int(SUITE)==0},
 "ran":["go test -run TestSeededDemo (with and without patch)","go test ./pkg/... ./internal/... (with patch, demo moved aside)","git -C /repo apply patch.diff; /verif/bin/symgo check -p %s -tier quick; git -C /repo checkout -- ."%P],
 "check_exit":int(CHK),"check_detected":int(CHK)==1,"check_output":viol})
json.dump(meta,open(os.path.join(OUT,'meta.json'),'w'),indent=1)
print("stored in",OUT)
PY
