//go:build verif

package resource

import (
	"google.golang.org/grpc/codes"
	"google.golang.org/grpc/status"
	"google.golang.org/protobuf/proto"

	"github.com/smart-core-os/sc-golang/internal/testproto"
	"github.com/smart-core-os/sc-golang/internal/vt"
)

type T5 = testproto.TestAllTypes

func vtT5(name string) *T5 {
	return &T5{DefaultInt32: vt.Int32(name + ".i32"), DefaultInt64: vt.Int64(name + ".i64")}
}

// Through a resource whose writable fields are W = {default_int32}: a sequence of two writes, the first of which may
// widen the writable set for itself (extra writable paths / all fields writable). The second, ordinary write must
// still be judged against W alone: masks outside W are rejected and change nothing, a nil mask writes only W.
func vtWritableSequence(v func(m *T5, opts ...WriteOption) (proto.Message, error), get func() *T5) {
	var first []WriteOption
	switch vt.Choose("first", 3) {
	case 1:
		first = append(first, WithMoreWritablePaths("default_int64"))
	case 2:
		first = append(first, WithAllFieldsWritable())
	}
	w1 := vtT5("w1")
	_, err := v(w1, first...)
	vt.Assert(err == nil, "first-write-succeeds")
	before := proto.Clone(get()).(*T5)
	w2 := vtT5("w2")
	switch vt.Choose("second", 3) {
	case 0: // names a field outside W
		_, err := v(w2, WithUpdatePaths("default_int64"))
		vt.Assert(status.Code(err) == codes.InvalidArgument, "mask-outside-writable-fields-rejected")
		vt.Assert(proto.Equal(get(), before), "rejected-write-changes-nothing")
	case 1: // nil mask: all of W, nothing else
		_, err := v(w2)
		vt.Assert(err == nil, "nil-mask-write-succeeds")
		after := get()
		vt.Assert(after.DefaultInt32 == w2.DefaultInt32, "writable-field-written")
		vt.Assert(after.DefaultInt64 == before.DefaultInt64, "field-outside-writable-fields-unchanged")
	case 2: // names a field inside W
		_, err := v(w2, WithUpdatePaths("default_int32"))
		vt.Assert(err == nil, "mask-inside-writable-fields-accepted")
		after := get()
		vt.Assert(vt.And(after.DefaultInt32 == w2.DefaultInt32, after.DefaultInt64 == before.DefaultInt64), "only-the-masked-writable-field-changes")
	}
	vt.Reach("done")
}

func VT_C05_ValueWritableFields() {
	val := NewValue(WithInitialValue(vtT5("init")), WithWritablePaths(&T5{}, "default_int32"))
	vtWritableSequence(func(m *T5, opts ...WriteOption) (proto.Message, error) { return val.Set(m, opts...) },
		func() *T5 { return val.Get().(*T5) })
}

func VT_C05_CollectionWritableFields() {
	c := NewCollection(WithInitialRecord("a", vtT5("init")), WithWritablePaths(&T5{}, "default_int32"))
	vtWritableSequence(func(m *T5, opts ...WriteOption) (proto.Message, error) { return c.Update("a", m, opts...) },
		func() *T5 { g, _ := c.Get("a"); return g.(*T5) })
}

// vtTol5 is a tolerance equivalence on default_int32 (what a resource uses to de-duplicate its event stream).
type vtTol5 struct{ tol int64 }

func (t vtTol5) Compare(x, y proto.Message) bool {
	if x == nil || y == nil {
		return x == nil && y == nil
	}
	a, b := x.(*T5), y.(*T5)
	if a == nil || b == nil {
		return a == nil && b == nil
	}
	d := int64(a.DefaultInt32) - int64(b.DefaultInt32)
	return vt.And(d <= t.tol, -d <= t.tol, a.DefaultInt64 == b.DefaultInt64)
}

// The equivalence configured on a resource only de-duplicates events: a successful masked write is stored exactly,
// however close it is to the stored value (Value and Collection, tolerance / exact / no equivalence).
func VT_C05_WriteStoredWhateverTheEquivalence() {
	var eqOpt Option = EmptyOption{}
	switch vt.Choose("equivalence", 3) {
	case 0:
		tol := int64(vt.Int32("tolerance"))
		vt.Assume(tol >= 0)
		eqOpt = WithEquivalence(vtTol5{tol})
	case 1:
		eqOpt = WithNoDuplicates()
	}
	init, w := vtT5("init"), vtT5("w")
	initCopy := proto.Clone(init).(*T5)
	var got proto.Message
	var err error
	var after *T5
	if vt.Choose("resource", 2) == 0 {
		v := NewValue(eqOpt, WithInitialValue(init))
		got, err = v.Set(w, WithUpdatePaths("default_int32"))
		after = v.Get().(*T5)
	} else {
		c := NewCollection(eqOpt, WithInitialRecord("a", init))
		got, err = c.Update("a", w, WithUpdatePaths("default_int32"))
		g, _ := c.Get("a")
		after = g.(*T5)
	}
	vt.Assert(err == nil, "masked-write-succeeds")
	if err != nil {
		return
	}
	vt.Assert(after.DefaultInt32 == w.DefaultInt32, "scalar-inside-the-mask-equals-the-written-one")
	vt.Assert(after.DefaultInt64 == initCopy.DefaultInt64, "field-outside-the-mask-unchanged")
	vt.Assert(proto.Equal(got, after), "write-returns-what-is-stored")
	vt.Reach("done")
}
