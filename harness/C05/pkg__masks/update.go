//go:build verif

package masks

import (
	"google.golang.org/grpc/codes"
	"google.golang.org/grpc/status"
	"google.golang.org/protobuf/proto"
	"google.golang.org/protobuf/types/known/fieldmaskpb"

	"github.com/smart-core-os/sc-api/go/traits"
	"github.com/smart-core-os/sc-golang/internal/testproto"
	"github.com/smart-core-os/sc-golang/internal/vt"
	"github.com/smart-core-os/sc-golang/internal/vth"
)

type M = fieldmaskpb.FieldMask

func vtUpdater(update, writable, reset *M) *FieldUpdater {
	opts := []FieldUpdaterOption{WithUpdateMask(update), WithWritableFields(writable)}
	if reset != nil {
		opts = append(opts, WithResetMask(reset))
	}
	return NewFieldUpdater(opts...)
}

// within: every path of m is covered by w (w nil = everything).
func within(m, w *M) bool {
	if w == nil {
		return true
	}
	for _, p := range m.GetPaths() {
		if !vth.Covers(w, p) {
			return false
		}
	}
	return true
}

// inScope: leaf p is inside M ∩ W (nil M = all of W, nil W = every field).
func inScope(update, writable *M, p string) bool {
	inM := update == nil || vth.Covers(update, p)
	inW := writable == nil || vth.Covers(writable, p)
	return inM && inW
}

func optEq(a, b *int32) bool {
	if a == nil || b == nil {
		return a == nil && b == nil
	}
	return *a == *b
}

// ---- scalar group ----
var scalarUpdateMasks = []*M{nil, vth.Mask(), vth.Mask("default_int32"), vth.Mask("default_string"), vth.Mask("optional_int32"),
	vth.Mask("default_int32", "optional_int32"), vth.Mask("default_int32", "default_int32"), vth.Mask("bogus"), vth.Mask("default_int32.x")}
var scalarUpdateValid = []bool{true, true, true, true, true, true, true, false, false}
var scalarWritable = []*M{nil, vth.Mask(), vth.Mask("default_int32"), vth.Mask("default_int32", "optional_int32"), vth.Mask("default_string")}
var scalarReset = []*M{nil, vth.Mask("default_int32"), vth.Mask("optional_int32")}

func VT_C05_Scalars() {
	dst, src := &testproto.TestAllTypes{}, &testproto.TestAllTypes{}
	vth.Scalars(dst, "dst")
	vth.Scalars(src, "src")
	update, ui := vth.PickMask("update", scalarUpdateMasks)
	writable, _ := vth.PickMask("writable", scalarWritable)
	reset, _ := vth.PickMask("reset", scalarReset)
	before := proto.Clone(dst).(*testproto.TestAllTypes)
	written := proto.Clone(src).(*testproto.TestAllTypes)
	u := vtUpdater(update, writable, reset)
	err := u.Validate(src)
	mustReject := !scalarUpdateValid[ui] || (update != nil && !within(update, writable))
	if mustReject {
		vt.Assert(status.Code(err) == codes.InvalidArgument, "invalid-or-read-only-mask-rejected-with-InvalidArgument")
	}
	if err != nil {
		vt.Assert(proto.Equal(dst, before), "rejected-write-changes-nothing")
		vt.Reach("rejected")
		return
	}
	u.Merge(dst, src)
	noop := (update != nil && len(update.Paths) == 0) || (writable != nil && len(writable.Paths) == 0)
	if noop {
		vt.Assert(proto.Equal(dst, before), "empty-mask-changes-nothing")
		vt.Reach("noop")
		return
	}
	// leaf by leaf
	if vth.Covers(reset, "default_int32") {
		vt.Assert(dst.DefaultInt32 == 0, "reset-field-cleared")
	} else if inScope(update, writable, "default_int32") {
		vt.Assert(dst.DefaultInt32 == written.DefaultInt32, "scalar-in-scope-equals-written")
	} else {
		vt.Assert(dst.DefaultInt32 == before.DefaultInt32, "scalar-out-of-scope-unchanged")
	}
	if inScope(update, writable, "default_string") {
		vt.Assert(dst.DefaultString == written.DefaultString, "string-in-scope-equals-written")
	} else {
		vt.Assert(dst.DefaultString == before.DefaultString, "string-out-of-scope-unchanged")
	}
	if vth.Covers(reset, "optional_int32") {
		vt.Assert(dst.OptionalInt32 == nil, "reset-optional-cleared")
	} else if inScope(update, writable, "optional_int32") {
		vt.Assert(optEq(dst.OptionalInt32, written.OptionalInt32), "optional-in-scope-equals-written-incl-absence")
	} else {
		vt.Assert(optEq(dst.OptionalInt32, before.OptionalInt32), "optional-out-of-scope-unchanged")
	}
	if inScope(update, writable, "default_int64") {
		vt.Assert(dst.DefaultInt64 == written.DefaultInt64, "witness-in-scope-equals-written")
	} else {
		vt.Assert(dst.DefaultInt64 == before.DefaultInt64, "witness-out-of-scope-unchanged")
	}
	vt.Reach("merged")
}

// ---- nested message group: default_foreign_message {c, d} ----
var nestedUpdateMasks = []*M{nil, vth.Mask("default_foreign_message"), vth.Mask("default_foreign_message.c"), vth.Mask("default_foreign_message.d"),
	vth.Mask("default_foreign_message.c", "default_foreign_message.d"), vth.Mask("default_foreign_message", "default_foreign_message.c"),
	vth.Mask("default_int64"), vth.Mask("default_foreign_message.bogus"),
	vth.Mask("default_foreign_message", "default_foreign_message.c", "default_foreign_message.d"),
	vth.Mask("default_foreign_message.d", "default_foreign_message.c", "default_foreign_message")}
var nestedUpdateValid = []bool{true, true, true, true, true, true, true, false, true, true}
var nestedWritable = []*M{nil, vth.Mask("default_foreign_message"), vth.Mask("default_foreign_message.c"), vth.Mask("default_int64")}

func fc(m *testproto.TestAllTypes) int32 { return m.GetDefaultForeignMessage().GetC() }
func fd(m *testproto.TestAllTypes) int32 { return m.GetDefaultForeignMessage().GetD() }

func VT_C05_Nested() {
	dst, src := &testproto.TestAllTypes{}, &testproto.TestAllTypes{}
	dst.DefaultInt64, src.DefaultInt64 = vt.Int64("dst.i64"), vt.Int64("src.i64")
	vth.Foreign(dst, "dst")
	vth.Foreign(src, "src")
	update, ui := vth.PickMask("update", nestedUpdateMasks)
	writable, _ := vth.PickMask("writable", nestedWritable)
	before := proto.Clone(dst).(*testproto.TestAllTypes)
	written := proto.Clone(src).(*testproto.TestAllTypes)
	u := vtUpdater(update, writable, nil)
	err := u.Validate(src)
	mustReject := !nestedUpdateValid[ui] || (update != nil && !within(update, writable))
	if mustReject {
		vt.Assert(status.Code(err) == codes.InvalidArgument, "invalid-or-read-only-mask-rejected-with-InvalidArgument")
	}
	if err != nil {
		vt.Assert(proto.Equal(dst, before), "rejected-write-changes-nothing")
		vt.Reach("rejected")
		return
	}
	u.Merge(dst, src)
	// the frame: leaves outside M ∩ W keep their value
	for _, leaf := range []string{"default_foreign_message.c", "default_foreign_message.d", "default_int64"} {
		if inScope(update, writable, leaf) {
			continue
		}
		switch leaf {
		case "default_foreign_message.c":
			vt.Assert(fc(dst) == fc(before), "nested-leaf-c-out-of-scope-unchanged")
		case "default_foreign_message.d":
			vt.Assert(fd(dst) == fd(before), "nested-leaf-d-out-of-scope-unchanged")
		case "default_int64":
			vt.Assert(dst.DefaultInt64 == before.DefaultInt64, "witness-out-of-scope-unchanged")
		}
	}
	// leaves named directly by the update mask (or everything, for a nil mask) equal the written message's
	// (a mask that also names the parent is equivalent to naming the parent only: FieldMask normal form)
	whole := vth.Has(update, "default_foreign_message")
	directC := inScope(update, writable, "default_foreign_message.c") && (update == nil || (vth.Has(update, "default_foreign_message.c") && !whole))
	directD := inScope(update, writable, "default_foreign_message.d") && (update == nil || (vth.Has(update, "default_foreign_message.d") && !whole))
	if directC {
		vt.Assert(fc(dst) == fc(written), "nested-leaf-c-in-scope-equals-written")
	}
	if directD {
		vt.Assert(fd(dst) == fd(written), "nested-leaf-d-in-scope-equals-written")
	}
	// the sub-message named as a whole by a non-nil mask follows FieldMask update semantics: merged when written, cleared when absent
	if update != nil && vth.Has(update, "default_foreign_message") && writable == nil {
		if written.DefaultForeignMessage == nil {
			vt.Assert(dst.DefaultForeignMessage == nil, "whole-message-absent-in-written-is-cleared")
		} else {
			wantC, wantD := fc(before), fd(before)
			if fc(written) != 0 {
				wantC = fc(written)
			}
			if fd(written) != 0 {
				wantD = fd(written)
			}
			vt.Assert(vt.And(fc(dst) == wantC, fd(dst) == wantD), "whole-message-merged")
		}
	}
	if inScope(update, writable, "default_int64") {
		vt.Assert(dst.DefaultInt64 == written.DefaultInt64, "witness-in-scope-equals-written")
	}
	vt.Reach("merged")
}

// ---- sibling fields whose names are textual prefixes of each other: preset / preset_index (traits.FanSpeed) ----
var siblingUpdateMasks = []*M{nil, vth.Mask("preset"), vth.Mask("preset_index"), vth.Mask("preset", "preset_index"), vth.Mask("percentage")}
var siblingWritable = []*M{nil, vth.Mask("preset"), vth.Mask("preset_index"), vth.Mask("percentage", "preset")}

func VT_C05_SiblingPrefixFields() {
	dst := &traits.FanSpeed{Preset: vt.StrOrd("dst.preset"), PresetIndex: vt.Int32("dst.index"), Percentage: vt.IntF("dst.pct")}
	src := &traits.FanSpeed{Preset: vt.StrOrd("src.preset"), PresetIndex: vt.Int32("src.index"), Percentage: vt.IntF("src.pct")}
	update, _ := vth.PickMask("update", siblingUpdateMasks)
	writable, _ := vth.PickMask("writable", siblingWritable)
	before := proto.Clone(dst).(*traits.FanSpeed)
	written := proto.Clone(src).(*traits.FanSpeed)
	u := vtUpdater(update, writable, nil)
	err := u.Validate(src)
	if update != nil && !within(update, writable) {
		vt.Assert(status.Code(err) == codes.InvalidArgument, "read-only-sibling-rejected-with-InvalidArgument")
	} else {
		vt.Assert(err == nil, "mask-inside-writable-fields-accepted")
	}
	if err != nil {
		vt.Assert(proto.Equal(dst, before), "rejected-write-changes-nothing")
		vt.Reach("rejected")
		return
	}
	u.Merge(dst, src)
	if inScope(update, writable, "preset") {
		vt.Assert(dst.Preset == written.Preset, "sibling-in-scope-equals-written")
	} else {
		vt.Assert(dst.Preset == before.Preset, "sibling-out-of-scope-unchanged")
	}
	if inScope(update, writable, "preset_index") {
		vt.Assert(dst.PresetIndex == written.PresetIndex, "longer-sibling-in-scope-equals-written")
	} else {
		vt.Assert(dst.PresetIndex == before.PresetIndex, "longer-sibling-out-of-scope-unchanged")
	}
	if inScope(update, writable, "percentage") {
		vt.Assert(dst.Percentage == written.Percentage, "witness-in-scope-equals-written")
	} else {
		vt.Assert(dst.Percentage == before.Percentage, "witness-out-of-scope-unchanged")
	}
	vt.Reach("merged")
}

// ---- repeated, map and oneof groups under update masks ----
var compositeUpdateMasks = []*M{nil, vth.Mask("repeated_int32"), vth.Mask("map_string_string"), vth.Mask("oneof_default_int32"),
	vth.Mask("oneof_default_nested_message"), vth.Mask("default_int64"), vth.Mask("repeated_int32", "default_int64")}

func oneofInt(m *testproto.TestAllTypes) (int32, bool) {
	x, ok := m.OneofDefault.(*testproto.TestAllTypes_OneofDefaultInt32)
	if !ok {
		return 0, false
	}
	return x.OneofDefaultInt32, true
}

func oneofMsg(m *testproto.TestAllTypes) (int32, bool) {
	x, ok := m.OneofDefault.(*testproto.TestAllTypes_OneofDefaultNestedMessage)
	if !ok || x.OneofDefaultNestedMessage == nil {
		return 0, false
	}
	return x.OneofDefaultNestedMessage.A, true
}

func sameInts(a, b []int32) bool {
	if len(a) != len(b) {
		return false
	}
	for i := range a {
		if a[i] != b[i] {
			return false
		}
	}
	return true
}

func sameMap(a, b map[string]string) bool {
	if len(a) != len(b) {
		return false
	}
	for k, v := range a {
		if w, ok := b[k]; !ok || w != v {
			return false
		}
	}
	return true
}

func VT_C05_Composite() {
	dst, src := &testproto.TestAllTypes{}, &testproto.TestAllTypes{}
	dst.DefaultInt64, src.DefaultInt64 = vt.Int64("dst.i64"), vt.Int64("src.i64")
	group := vt.Choose("group", 3)
	switch group {
	case 0:
		vth.Repeated(dst, "dst")
		vth.Repeated(src, "src")
	case 1:
		vth.Map(dst, "dst")
		vth.Map(src, "src")
	case 2:
		vth.Oneof(dst, "dst")
		vth.Oneof(src, "src")
	}
	update, _ := vth.PickMask("update", compositeUpdateMasks)
	before := proto.Clone(dst).(*testproto.TestAllTypes)
	written := proto.Clone(src).(*testproto.TestAllTypes)
	u := vtUpdater(update, nil, nil)
	err := u.Validate(src)
	vt.Assert(err == nil, "valid-mask-accepted")
	if err != nil {
		return
	}
	u.Merge(dst, src)
	in := func(p string) bool { return update == nil || vth.Covers(update, p) }
	// the frame
	if !in("default_int64") {
		vt.Assert(dst.DefaultInt64 == before.DefaultInt64, "witness-out-of-scope-unchanged")
	} else {
		vt.Assert(dst.DefaultInt64 == written.DefaultInt64, "witness-in-scope-equals-written")
	}
	if !in("repeated_int32") {
		vt.Assert(sameInts(dst.RepeatedInt32, before.RepeatedInt32), "repeated-out-of-scope-unchanged")
	}
	if !in("repeated_foreign_message") {
		vt.Assert(len(dst.RepeatedForeignMessage) == len(before.RepeatedForeignMessage), "repeated-message-out-of-scope-unchanged")
	}
	if !in("map_string_string") {
		vt.Assert(sameMap(dst.MapStringString, before.MapStringString), "map-out-of-scope-unchanged")
	}
	bi, bHasI := oneofInt(before)
	bm, bHasM := oneofMsg(before)
	di, dHasI := oneofInt(dst)
	dm, dHasM := oneofMsg(dst)
	if !in("oneof_default_int32") && !in("oneof_default_nested_message") {
		vt.Assert(vt.And(dHasI == bHasI, dHasM == bHasM), "oneof-out-of-scope-keeps-its-arm")
		if bHasI && dHasI {
			vt.Assert(di == bi, "oneof-out-of-scope-keeps-its-value")
		}
		if bHasM && dHasM {
			vt.Assert(dm == bm, "oneof-out-of-scope-keeps-its-value")
		}
	}
	// in scope
	if update == nil {
		vt.Assert(sameInts(dst.RepeatedInt32, written.RepeatedInt32), "nil-mask-repeated-equals-written")
		vt.Assert(sameMap(dst.MapStringString, written.MapStringString), "nil-mask-map-equals-written")
		wi, wHasI := oneofInt(written)
		wm, wHasM := oneofMsg(written)
		vt.Assert(vt.And(dHasI == wHasI, dHasM == wHasM), "nil-mask-oneof-arm-equals-written")
		if wHasI && dHasI {
			vt.Assert(di == wi, "nil-mask-oneof-value-equals-written")
		}
		if wHasM && dHasM {
			vt.Assert(dm == wm, "nil-mask-oneof-value-equals-written")
		}
	}
	if update != nil && vth.Has(update, "repeated_int32") {
		if len(written.RepeatedInt32) == 0 {
			vt.Assert(len(dst.RepeatedInt32) == 0, "masked-repeated-absent-in-written-is-cleared")
		} else {
			// FieldMask update semantics: new values are appended to the existing repeated field
			want := append(append([]int32(nil), before.RepeatedInt32...), written.RepeatedInt32...)
			vt.Assert(sameInts(dst.RepeatedInt32, want), "masked-repeated-follows-fieldmask-append-semantics")
		}
	}
	if update != nil && vth.Has(update, "map_string_string") {
		if len(written.MapStringString) == 0 {
			vt.Assert(len(dst.MapStringString) == 0, "masked-map-absent-in-written-is-cleared")
		} else {
			for k, v := range written.MapStringString {
				w, ok := dst.MapStringString[k]
				vt.Assert(vt.And(ok, w == v), "masked-map-has-the-written-entries")
			}
		}
	}
	if update != nil && vth.Has(update, "oneof_default_int32") {
		if wi, ok := oneofInt(written); ok {
			vt.Assert(vt.And(dHasI, di == wi), "masked-oneof-arm-set-in-written-is-written")
		} else {
			vt.Assert(!dHasI, "masked-oneof-arm-absent-in-written-is-cleared")
			if bHasM {
				vt.Assert(vt.And(dHasM, dm == bm), "other-oneof-arm-outside-the-mask-unchanged")
			}
		}
	}
	if update != nil && vth.Has(update, "oneof_default_nested_message") {
		if wm, ok := oneofMsg(written); ok {
			vt.Assert(vt.And(dHasM, dm == wm || wm == 0), "masked-oneof-message-arm-set-in-written-is-written")
		} else {
			vt.Assert(!dHasM, "masked-oneof-message-arm-absent-in-written-is-cleared")
			if bHasI {
				vt.Assert(vt.And(dHasI, di == bi), "other-oneof-arm-outside-the-mask-unchanged")
			}
		}
	}
	vt.Reach("merged")
}
