//go:build verif

package resource

import (
	"context"
	"sync"

	"google.golang.org/protobuf/proto"

	"github.com/smart-core-os/sc-golang/internal/testproto"
	"github.com/smart-core-os/sc-golang/internal/vt"
)

type T11 = testproto.TestAllTypes

func vtRead(m proto.Message) int32 {
	if m == nil {
		return 0
	}
	t := m.(*T11)
	return t.DefaultInt32 + t.GetDefaultForeignMessage().GetC()
}

// Value: a writer whose interceptors read the messages they are given, and a reader that reads what Get returns.
func VT_C11_ValueWriterReader() {
	v := NewValue(WithInitialValue(&T11{DefaultInt32: 1, DefaultForeignMessage: &testproto.ForeignMessage{C: 2}}))
	var wg sync.WaitGroup
	wg.Add(2)
	sink := make([]int32, 2)
	go func() {
		defer wg.Done()
		v.Set(&T11{DefaultInt32: 10, DefaultForeignMessage: &testproto.ForeignMessage{C: 5}},
			InterceptBefore(func(old, value proto.Message) { sink[0] += vtRead(old) }),
			InterceptAfter(func(old, nw proto.Message) { sink[0] += vtRead(old) + vtRead(nw) }))
	}()
	go func() {
		defer wg.Done()
		sink[1] += vtRead(v.Get())
		sink[1] += vtRead(v.Get(WithReadPaths(&T11{}, "default_int32")))
	}()
	wg.Wait()
	vt.Reach("done")
}

// Value: a writer and a subscriber that reads the events it receives and then cancels.
func VT_C11_ValueWriterSubscriber() {
	v := NewValue(WithInitialValue(&T11{DefaultInt32: 1, DefaultForeignMessage: &testproto.ForeignMessage{C: 2}}))
	var wg sync.WaitGroup
	wg.Add(2)
	sink := make([]int32, 2)
	go func() {
		defer wg.Done()
		v.Set(&T11{DefaultInt32: 10}, InterceptAfter(func(old, nw proto.Message) { sink[0] += vtRead(old) + vtRead(nw) }))
	}()
	go func() {
		defer wg.Done()
		ctx, cancel := context.WithCancel(context.Background())
		ch := v.Pull(ctx, WithBackpressure(vt.Choose("backpressure", 2) == 1))
		e := <-ch // the seed always arrives
		sink[1] += vtRead(e.Value)
		cancel()
		for e := range ch {
			sink[1] += vtRead(e.Value)
		}
	}()
	wg.Wait()
	vt.Reach("done")
}

// Collection: two concurrent Adds with generated ids plus a List.
func VT_C11_CollectionGeneratedIDs() {
	c := NewCollection()
	var wg sync.WaitGroup
	wg.Add(2)
	for i := 0; i < 2; i++ {
		i := i
		go func() {
			defer wg.Done()
			c.Add("", &T11{DefaultInt32: int32(i)}, WithGenIDIfAbsent(), WithIDCallback(func(string) {}))
		}()
	}
	wg.Wait()
	vt.Reach("done")
}

// Collection: update / delete / get concurrently on the same id.
func VT_C11_CollectionMixed() {
	c := NewCollection(WithInitialRecord("a", &T11{DefaultInt32: 1}))
	var wg sync.WaitGroup
	wg.Add(3)
	go func() { defer wg.Done(); c.Update("a", &T11{DefaultInt32: 2}, WithCreateIfAbsent()) }()
	go func() { defer wg.Done(); c.Delete("a", WithAllowMissing(true)) }()
	go func() {
		defer wg.Done()
		if m, ok := c.Get("a"); ok {
			_ = vtRead(m)
		}
	}()
	wg.Wait()
	vt.Reach("done")
}

// Collection: a subscriber reading old and new values of the events while a writer updates and deletes.
func VT_C11_CollectionPullReader() {
	c := NewCollection(WithInitialRecord("a", &T11{DefaultInt32: 1}))
	var wg sync.WaitGroup
	wg.Add(2)
	go func() {
		defer wg.Done()
		c.Update("a", &T11{DefaultInt32: 2})
		c.Delete("a")
	}()
	go func() {
		defer wg.Done()
		ctx, cancel := context.WithCancel(context.Background())
		ch := c.Pull(ctx)
		cancel()
		for e := range ch {
			_ = vtRead(e.NewValue) + vtRead(e.OldValue)
		}
	}()
	wg.Wait()
	vt.Reach("done")
}

// A conditional Delete (expected value and check, both evaluated outside the lock) racing an Update of the same id.
func VT_C11_CollectionConditionalDeleteVsUpdate() {
	c := NewCollection(WithInitialRecord("x", &T11{DefaultInt32: 1}))
	var wg sync.WaitGroup
	wg.Add(2)
	go func() {
		defer wg.Done()
		c.Delete("x", WithExpectedValue(&T11{DefaultInt32: 1}), WithExpectedCheck(func(m proto.Message) error {
			_ = proto.Clone(m)
			return nil
		}))
	}()
	go func() {
		defer wg.Done()
		c.Update("x", &T11{DefaultInt32: 2})
	}()
	wg.Wait()
	vt.Reach("done")
}
