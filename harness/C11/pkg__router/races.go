//go:build verif

package router

import (
	"sync"

	"github.com/smart-core-os/sc-golang/internal/vt"
)

// Registry operations and factory Gets from several goroutines, with a change callback that records into shared state under its own lock.
func VT_C11_Router() {
	var mu sync.Mutex
	n := 0
	r := NewRouter(WithFactory(func(name string) (any, error) { return vt.Msg("made"), nil }),
		WithOnChange(func(Change) { mu.Lock(); n++; mu.Unlock() }))
	var wg sync.WaitGroup
	wg.Add(3)
	go func() { defer wg.Done(); r.Add("a", vt.Msg("c1")) }()
	go func() { defer wg.Done(); r.Get("a") }()
	go func() { defer wg.Done(); r.Remove("a"); r.Has("a") }()
	wg.Wait()
	vt.Reach("done")
}
