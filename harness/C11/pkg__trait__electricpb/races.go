//go:build verif

package electricpb

import (
	"google.golang.org/protobuf/proto"
	"sync"

	"github.com/smart-core-os/sc-api/go/traits"
	"github.com/smart-core-os/sc-golang/internal/vt"
)

// Electric model: create / update / change-active / list from several goroutines.
func VT_C11_ElectricModel() {
	m := NewModel()
	m.AddMode(&traits.ElectricMode{Id: "0000000000000011", Title: "one"})
	var wg sync.WaitGroup
	wg.Add(3)
	go func() { defer wg.Done(); m.UpdateMode(&traits.ElectricMode{Id: "0000000000000011", Title: "changed"}) }()
	go func() {
		defer wg.Done()
		m.ChangeActiveMode("0000000000000011")
		m.CreateMode(&traits.ElectricMode{Title: "new", Normal: true})
	}()
	go func() {
		defer wg.Done()
		n := 0
		for _, md := range m.Modes() {
			n += len(md.Title)
			_ = proto.Clone(md) // a reader looks at every field (as marshalling a response does)
		}
		n += len(m.ActiveMode().Title)
		_ = proto.Clone(m.ActiveMode())
		_ = n
	}()
	wg.Wait()
	vt.Reach("done")
}
