//go:build verif

package parentpb

import (
	"sync"

	"github.com/smart-core-os/sc-golang/internal/vt"
	"github.com/smart-core-os/sc-golang/pkg/trait"
)

// A reader walks the traits of listed children while writers add and remove traits.
func VT_C11_ParentModel() {
	m := NewModel()
	m.AddChildTrait("c", trait.Name("b"), trait.Name("d"))
	var wg sync.WaitGroup
	wg.Add(3)
	// (AddChildTrait / RemoveChildTrait panic with "concurrent update detected" when they lose a race - not a data
	// race, recorded in DESIGN.md as an observation - so the calls are wrapped)
	go func() { defer wg.Done(); vt.Try(func() { m.AddChildTrait("c", trait.Name("a")) }) }()
	go func() { defer wg.Done(); vt.Try(func() { m.RemoveChildTrait("c", trait.Name("b")) }) }()
	go func() {
		defer wg.Done()
		total := 0
		for _, ch := range m.ListChildren() {
			for _, t := range ch.Traits {
				total += len(t.Name)
			}
		}
		_ = total
	}()
	wg.Wait()
	vt.Reach("done")
}
