//go:build verif

package parentpb

import (
	"github.com/smart-core-os/sc-api/go/traits"
	"github.com/smart-core-os/sc-golang/internal/vt"
	"github.com/smart-core-os/sc-golang/pkg/trait"
)

var vtTN = []string{"h0", "h1", "h2", "h3"}
var vtMN = []string{"x0", "x1"}

// vtSortedTraits: 0..3 traits with strictly ascending symbolic names, with or without spare capacity.
func vtSortedTraits() ([]*traits.Trait, []string) {
	n := vt.Choose("n", vt.Bound("traits", 3, 4)+1)
	spare := vt.Choose("spare", 2) * 2
	has := make([]*traits.Trait, n, n+spare)
	names := make([]string, n)
	for i := 0; i < n; i++ {
		names[i] = vt.StrOrd(vtTN[i])
		if i > 0 {
			vt.Assume(names[i-1] < names[i])
		}
		has[i] = &traits.Trait{Name: names[i]}
	}
	return has, names
}

func vtArgs() []trait.Name {
	k := vt.Choose("k", 2) + 1
	out := make([]trait.Name, k)
	for i := 0; i < k; i++ {
		out[i] = trait.Name(vt.StrOrd(vtMN[i]))
	}
	return out
}

func vtIn(name string, set []string) bool {
	in := false
	for _, s := range set {
		in = vt.Or(in, s == name)
	}
	return in
}

func vtInNames(name string, set []trait.Name) bool {
	in := false
	for _, s := range set {
		in = vt.Or(in, string(s) == name)
	}
	return in
}

func vtNamesOf(ts []*traits.Trait) []string {
	out := make([]string, len(ts))
	for i, t := range ts {
		out[i] = t.Name
	}
	return out
}

func vtStrictlySorted(names []string) bool {
	ok := true
	for i := 1; i < len(names); i++ {
		ok = vt.And(ok, names[i-1] < names[i])
	}
	return ok
}

// traitUnion: result is sorted, duplicate free, and its set is has ∪ more.
func VT_C20_TraitUnion() {
	has, names := vtSortedTraits()
	more := vtArgs()
	out := vtNamesOf(traitUnion(has, more...))
	vt.Assert(vtStrictlySorted(out), "union-sorted-duplicate-free")
	for _, n := range names {
		vt.Assert(vtIn(n, out), "union-keeps-existing")
	}
	for _, m := range more {
		vt.Assert(vtIn(string(m), out), "union-contains-added")
	}
	for _, o := range out {
		vt.Assert(vt.Or(vtIn(o, names), vtInNames(o, more)), "union-adds-nothing-else")
	}
	vt.Reach("done")
}

// traitRemove: result is sorted, duplicate free, and its set is has \ remove.
func VT_C20_TraitRemove() {
	has, names := vtSortedTraits()
	remove := vtArgs()
	out := vtNamesOf(traitRemove(has, remove...))
	vt.Assert(vtStrictlySorted(out), "remove-sorted-duplicate-free")
	for _, n := range names {
		vt.Assert(vtIn(n, out) == !vtInNames(n, remove), "remove-is-set-difference")
	}
	for _, o := range out {
		vt.Assert(vtIn(o, names), "remove-adds-nothing")
	}
	vt.Reach("done")
}
