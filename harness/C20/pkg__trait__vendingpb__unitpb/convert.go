//go:build verif

package unitpb

import (
	"github.com/smart-core-os/sc-api/go/traits"
	"github.com/smart-core-os/sc-golang/internal/vt"
)

var vtUnits = []traits.Consumable_Unit{traits.Consumable_LITER, traits.Consumable_CUBIC_METER, traits.Consumable_CUP, traits.Consumable_KILOGRAM, traits.Consumable_METER, traits.Consumable_NO_UNIT}
var vtCat = []string{"volume", "volume", "volume", "weight", "length", ""}

// Convert: same unit is the identity; conversion fails exactly across categories / for unknown units.
func VT_C20_Convert() {
	v := vt.Float64("v")
	fi, ti := vt.Choose("from", len(vtUnits)), vt.Choose("to", len(vtUnits))
	from, to := vtUnits[fi], vtUnits[ti]
	out, err := Convert(v, from, to)
	if fi == ti {
		vt.Assert(err == nil, "same-unit-no-error")
		vt.Assert(vt.Or(out == v, vt.And(out != out, v != v)), "same-unit-identity")
	} else {
		sameCat := vtCat[fi] != "" && vtCat[fi] == vtCat[ti]
		vt.Assert((err == nil) == sameCat, "error-iff-categories-differ-or-unknown")
	}
	vt.Reach("done")
}

