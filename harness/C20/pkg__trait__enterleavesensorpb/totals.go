//go:build verif

package enterleavesensorpb

import (
	"github.com/smart-core-os/sc-api/go/traits"
	"github.com/smart-core-os/sc-golang/internal/vt"
)

func vtOpt(name string) *int32 {
	if vt.Choose(name+".present", 2) == 0 {
		return nil
	}
	v := vt.Int32(name)
	return &v
}

func vtVal(p *int32) int32 {
	if p == nil {
		return 0
	}
	return *p
}

// Enter/leave totals: an event with an explicit, different total sets it; otherwise ENTER increments the enter total,
// LEAVE the leave total, and the other total is kept. ResetTotals zeroes both.
func VT_C20_EnterLeaveTotals() {
	curEnter, curLeave := vtOpt("cur.enter"), vtOpt("cur.leave")
	m := NewModel(WithInitialEnterLeaveEvent(&traits.EnterLeaveEvent{EnterTotal: curEnter, LeaveTotal: curLeave}))
	dir := []traits.EnterLeaveEvent_Direction{traits.EnterLeaveEvent_DIRECTION_UNSPECIFIED, traits.EnterLeaveEvent_ENTER, traits.EnterLeaveEvent_LEAVE}[vt.Choose("direction", 3)]
	evEnter, evLeave := vtOpt("ev.enter"), vtOpt("ev.leave")
	ce, cl := vtVal(curEnter), vtVal(curLeave)
	var explicitE, explicitL bool
	var ee, el int32
	if evEnter != nil {
		ee = *evEnter
		explicitE = ee != ce
	}
	if evLeave != nil {
		el = *evLeave
		explicitL = el != cl
	}
	err := m.CreateEnterLeaveEvent(&traits.EnterLeaveEvent{Direction: dir, EnterTotal: evEnter, LeaveTotal: evLeave})
	vt.Assert(err == nil, "create-event-succeeds")
	got, _ := m.GetEnterLeaveEvent()
	wantE, wantL := ce, cl
	if explicitE {
		wantE = ee
	} else if dir == traits.EnterLeaveEvent_ENTER {
		wantE = ce + 1
	}
	if explicitL {
		wantL = el
	} else if dir == traits.EnterLeaveEvent_LEAVE {
		wantL = cl + 1
	}
	vt.Assert(vt.And(got.EnterTotal != nil, got.LeaveTotal != nil), "totals-always-present-after-an-event")
	if got.EnterTotal != nil && got.LeaveTotal != nil {
		vt.Assert(*got.EnterTotal == wantE, "enter-total-follows-the-rules")
		vt.Assert(*got.LeaveTotal == wantL, "leave-total-follows-the-rules")
	}
	vt.Assert(m.ResetTotals() == nil, "reset-succeeds")
	got2, _ := m.GetEnterLeaveEvent()
	vt.Assert(vt.And(got2.EnterTotal != nil, got2.LeaveTotal != nil), "totals-present-after-reset")
	if got2.EnterTotal != nil && got2.LeaveTotal != nil {
		vt.Assert(vt.And(*got2.EnterTotal == 0, *got2.LeaveTotal == 0), "reset-zeroes-both-totals")
	}
	vt.Reach("done")
}
