//go:build verif

package modepb

import (
	"github.com/smart-core-os/sc-api/go/traits"
	"github.com/smart-core-os/sc-golang/internal/vt"
)

var vtVN = []string{"v0", "v1", "v2", "v3"}

// relativeAdjustment: new index == (i + a) mod n over the mathematical integers; unknown current value -> first value.
func VT_C20_RelativeAdjustment() {
	n := vt.Choose("n", vt.Bound("values", 3, 4)) + 1
	values := make([]*traits.Modes_Value, n)
	for i := range values {
		values[i] = &traits.Modes_Value{Name: vtVN[i]}
	}
	modes := &traits.Modes{Modes: []*traits.Modes_Mode{{Name: "m", Ordered: true, Values: values}}}
	srv := &ModelServer{model: &Model{modes: modes}}
	a := vt.Int32("adjust")
	cur := vt.Choose("current", n+2) // n = a value that is not available, n+1 = no current value
	old := &traits.ModeValues{Values: map[string]string{}}
	if cur < n {
		old.Values["m"] = vtVN[cur]
	} else if cur == n {
		old.Values["m"] = "bogus"
	}
	nw := &traits.ModeValues{}
	panicked, _ := vt.Try(func() { srv.relativeAdjustment(map[string]int32{"m": a})(old, nw) })
	vt.Assert(!panicked, "relative-never-panics")
	if panicked {
		return
	}
	got := nw.Values["m"]
	if cur >= n {
		vt.Assert(got == vtVN[0], "unknown-current-selects-first")
		vt.Reach("unknown-current")
		return
	}
	// (cur + a) mod n computed in 64 bits, where it cannot wrap
	want := (int64(cur) + int64(a)) % int64(n)
	if want < 0 {
		want += int64(n)
	}
	idx := int64(-1)
	for i := 0; i < n; i++ {
		idx = vt.IteInt64(got == vtVN[i], int64(i), idx)
	}
	vt.Assert(idx == want, "relative-step-wraps-modulo-n")
	vt.Reach("done")
}

// Models constructed with explicit modes use them.
func VT_C20_NewModelModes() {
	modes := &traits.Modes{Modes: []*traits.Modes_Mode{{Name: "only", Values: []*traits.Modes_Value{{Name: "a"}, {Name: "b"}}}}}
	m := NewModelModes(modes)
	vt.Assert(m.Modes() == modes, "configured-modes-are-used")
	vs := m.AvailableValues("only")
	vt.Assert(len(vs) == 2, "configured-mode-values-available")
	vt.Reach("done")
}
