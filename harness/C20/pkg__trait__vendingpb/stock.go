//go:build verif

package vendingpb

import (
	"github.com/smart-core-os/sc-api/go/traits"
	"github.com/smart-core-os/sc-golang/internal/vt"
	"github.com/smart-core-os/sc-golang/pkg/trait/vendingpb/unitpb"
)

var vtUnits = []traits.Consumable_Unit{traits.Consumable_LITER, traits.Consumable_CUBIC_METER, traits.Consumable_CUP, traits.Consumable_KILOGRAM, traits.Consumable_METER, traits.Consumable_NO_UNIT}

// vtQuantity: in "symbolic" mode every quantity has the same (arbitrary) unit u and an arbitrary integer amount, so
// no unit conversion arithmetic is involved; in "concrete" mode units are arbitrary and independent and amounts are
// the given small constants (float multiply/divide by conversion factors then folds to constants - no back end
// decides symbolic FP multiplication followed by division in reasonable time).
func vtQuantity(name string, symbolic bool, u traits.Consumable_Unit, amount float32) *traits.Consumable_Quantity {
	if symbolic {
		return &traits.Consumable_Quantity{Unit: u, Amount: vt.IntFloat32(name + ".amount")}
	}
	return &traits.Consumable_Quantity{Unit: vtUnits[vt.Choose(name+".unit", len(vtUnits))], Amount: amount}
}

// updateStock: used' = used + conv(q), remaining' = max(0, remaining - conv(q)), each in its own unit;
// absent stays absent; no panic; conversion errors are reported.
func VT_C20_UpdateStock() {
	symbolic := vt.Choose("symbolicAmounts", 2) == 1
	u := vtUnits[vt.Choose("u", len(vtUnits))]
	q := vtQuantity("q", symbolic, u, 3)
	vt.Assume(q.Amount >= 0)
	src := &traits.Consumable_Stock{Consumable: "c"}
	if vt.Choose("hasUsed", 2) == 1 {
		src.Used = vtQuantity("used", symbolic, u, 2)
	}
	if vt.Choose("hasRemaining", 2) == 1 {
		rem := float32(5000)
		if vt.Choose("remainingSmall", 2) == 1 {
			rem = 0.001
		}
		src.Remaining = vtQuantity("remaining", symbolic, u, rem)
	}
	dst := &traits.Consumable_Stock{Consumable: "c"}
	var err error
	panicked, _ := vt.Try(func() { err = updateStock(q, src, dst) })
	vt.Assert(!panicked, "update-stock-never-panics")
	if panicked {
		return
	}
	var convErr bool
	if src.Used != nil {
		delta, e := unitpb.Convert32(q.Amount, q.Unit, src.Used.Unit)
		if e != nil {
			convErr = true
		} else if err == nil {
			vt.Assert(dst.Used != nil, "used-stays-present")
			if dst.Used != nil {
				vt.Assert(dst.Used.Unit == src.Used.Unit, "used-keeps-its-unit")
				vt.Assert(dst.Used.Amount == src.Used.Amount+delta, "used-increased-by-quantity")
			}
		}
	} else if err == nil {
		vt.Assert(dst.Used == nil, "absent-used-stays-absent")
	}
	if src.Remaining != nil {
		delta, e := unitpb.Convert32(q.Amount, q.Unit, src.Remaining.Unit)
		if e != nil {
			convErr = true
		} else if err == nil {
			vt.Assert(dst.Remaining != nil, "remaining-stays-present")
			if dst.Remaining != nil {
				vt.Assert(dst.Remaining.Unit == src.Remaining.Unit, "remaining-keeps-its-unit")
				want := src.Remaining.Amount - delta
				if want < 0 {
					want = 0
				}
				vt.Assert(dst.Remaining.Amount == want, "remaining-decreased-floored-at-zero")
			}
		}
	} else if err == nil {
		vt.Assert(dst.Remaining == nil, "absent-remaining-stays-absent")
	}
	vt.Assert((err != nil) == convErr, "conversion-error-reported-iff-it-occurs")
	vt.Reach("done")
}
