//go:build verif

package vendingpb

import (
	"github.com/smart-core-os/sc-api/go/traits"
	"github.com/smart-core-os/sc-golang/internal/vt"
)

// Models constructed with explicit configuration use it - and only where it belongs.
func VT_C20_VendingConstructor() {
	m := NewModel(WithInitialConsumable(&traits.Consumable{Name: "water"}), WithInitialStock(&traits.Consumable_Stock{Consumable: "cola"}))
	cs := m.ListConsumables()
	vt.Assert(len(cs) == 1, "initial-consumables-are-the-consumables")
	if len(cs) == 1 {
		vt.Assert(cs[0].Name == "water", "initial-consumable-is-listed")
	}
	inv := m.ListInventory()
	vt.Assert(len(inv) == 1, "initial-stock-is-the-inventory")
	if len(inv) == 1 {
		vt.Assert(inv[0].Consumable == "cola", "initial-stock-is-listed")
	}
	vt.Reach("done")
}

// Conversion errors during dispensing are reported, not swallowed; a successful dispense updates the stock.
func VT_C20_DispenseInstantly() {
	usedUnit := vtUnits[vt.Choose("used.unit", len(vtUnits))]
	qUnit := vtUnits[vt.Choose("q.unit", len(vtUnits))]
	m := NewModel(WithInitialStock(&traits.Consumable_Stock{Consumable: "cola", Used: &traits.Consumable_Quantity{Unit: usedUnit, Amount: 2}}))
	q := &traits.Consumable_Quantity{Unit: qUnit, Amount: 3}
	stock, err := m.DispenseInstantly("cola", q)
	convOK := usedUnit == qUnit || vtCategory(usedUnit) != "" && vtCategory(usedUnit) == vtCategory(qUnit)
	if convOK {
		vt.Assert(err == nil, "convertible-dispense-succeeds")
		if err == nil && usedUnit == qUnit {
			vt.Assert(vt.And(stock.Used.Amount == 5, stock.Used.Unit == usedUnit), "used-increased-in-its-own-unit")
		}
	} else {
		vt.Assert(err != nil, "conversion-error-is-reported-not-swallowed")
		got, _ := m.GetStock("cola")
		if got != nil {
			vt.Assert(vt.And(got.Used.Amount == 2, got.Used.Unit == usedUnit), "failed-dispense-leaves-the-stock-unchanged")
		}
	}
	vt.Reach("done")
}

func vtCategory(u traits.Consumable_Unit) string {
	switch u {
	case traits.Consumable_LITER, traits.Consumable_CUBIC_METER, traits.Consumable_CUP:
		return "volume"
	case traits.Consumable_KILOGRAM:
		return "weight"
	case traits.Consumable_METER:
		return "length"
	}
	return ""
}
