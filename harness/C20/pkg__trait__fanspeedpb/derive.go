//go:build verif

package fanspeedpb

import (
	"github.com/smart-core-os/sc-api/go/traits"
	"github.com/smart-core-os/sc-golang/internal/vt"
)

var vtPN = []string{"p0", "p1", "p2", "p3"}

func vtPresets() []Preset {
	n := vt.Choose("presets", vt.Bound("presets", 3, 4)+1)
	ps := make([]Preset, n)
	for i := range ps {
		ps[i] = Preset{Name: vt.Str(vtPN[i] + ".name"), Percentage: vt.IntFloat32(vtPN[i] + ".pct")}
		vt.Assume(ps[i].Name != "")
		for j := 0; j < i; j++ {
			vt.Assume(vt.And(ps[j].Name != ps[i].Name, ps[j].Percentage != ps[i].Percentage))
		}
	}
	return ps
}

// consistent: preset/index/percentage agree with the table, or the speed is "between presets" (index -1, no name).
func vtConsistent(ps []Preset, f *traits.FanSpeed) bool {
	ok := vt.And(f.PresetIndex == -1, f.Preset == "")
	for i, p := range ps {
		ok = vt.Or(ok, vt.And(f.PresetIndex == int32(i), f.Preset == p.Name, f.Percentage == p.Percentage))
	}
	return ok
}

// DeriveValues after a change of one of preset / index / percentage (precedence in that order) leaves the three consistent.
func VT_C20_DeriveValues() {
	ps := vtPresets()
	m := &Model{presets: ps}
	old := &traits.FanSpeed{Preset: vt.Str("old.preset"), PresetIndex: vt.Int32("old.index"), Percentage: vt.IntFloat32("old.pct")}
	vt.Assume(vtConsistent(ps, old))
	nw := &traits.FanSpeed{Preset: old.Preset, PresetIndex: old.PresetIndex, Percentage: old.Percentage}
	switch vt.Choose("changed", 3) {
	case 0: // a known preset name (validateUpdate rejects unknown ones)
		nw.Preset = vt.Str("new.preset")
		known := false
		for _, p := range ps {
			known = vt.Or(known, p.Name == nw.Preset)
		}
		vt.Assume(known)
	case 1:
		nw.PresetIndex = vt.Int32("new.index")
	case 2:
		nw.Percentage = vt.IntFloat32("new.pct")
	}
	panicked, _ := vt.Try(func() { m.DeriveValues(old, nw) })
	vt.Assert(!panicked, "derive-never-panics")
	if panicked {
		return
	}
	if len(ps) > 0 {
		vt.Assert(vtConsistent(ps, nw), "preset-index-percentage-consistent")
	}
	vt.Reach("done")
}
