//go:build verif

package publicationpb

import (
	"context"
	"time"

	"google.golang.org/grpc/codes"
	"google.golang.org/grpc/status"
	"google.golang.org/protobuf/proto"

	"github.com/smart-core-os/sc-api/go/traits"
	"github.com/smart-core-os/sc-golang/internal/vt"
	"github.com/smart-core-os/sc-golang/pkg/resource"
)

type vtClk20 struct{ now time.Time }

func (c *vtClk20) Now() time.Time { return c.now }

var vtBodies20 = [][]byte{[]byte("body-A"), []byte("body-B")}
var vtMedia20 = []string{"text/plain", "application/json"}

// Publication version and acknowledgement state through the PublicationApi server: create mints a version and a publish
// time and resets the receipt; an update needs the current version (or none), mints a new version exactly when the
// hashed content (id, body, media type, audience name) changes, and resets the receipt; an acknowledgement needs the
// current version, is recorded once with the clock's time, and a second one is refused unless allowed.
// Content is concrete (two bodies, two media types) so that the real md5 runs; the operation sequence is symbolic.
func VT_C20_PublicationLifecycle() {
	clk := &vtClk20{now: vt.Time("t0")}
	srv := NewModelServer(NewModel(resource.WithClock(clk)))
	ctx := context.Background()
	b1, m1 := vt.Choose("body1", 2), vt.Choose("media1", 2)
	var audience *traits.Publication_Audience
	audName := ""
	if vt.Choose("hasAudience", 2) == 1 {
		audName = "aud"
		audience = &traits.Publication_Audience{Name: "aud", Receipt: traits.Publication_Audience_ACCEPTED, ReceiptRejectedReason: "stale"}
	}
	created, err := srv.CreatePublication(ctx, &traits.CreatePublicationRequest{Publication: &traits.Publication{
		Id: "p1", Body: vtBodies20[b1], MediaType: vtMedia20[m1],
		Audience: audience,
	}})
	vt.Assert(err == nil, "create-succeeds")
	if err != nil {
		return
	}
	vt.Assert(created.Version != "", "create-mints-a-version")
	vt.Assert(created.PublishTime.AsTime().Equal(clk.now), "create-stamps-publish-time-with-the-clock")
	if audience != nil {
		vt.Assert(vt.And(created.Audience.GetReceipt() == traits.Publication_Audience_NO_SIGNAL, created.Audience.GetReceiptTime() == nil, created.Audience.GetReceiptRejectedReason() == ""), "create-resets-the-receipt")
	} else {
		vt.Assert(created.Audience == nil, "create-without-audience-has-none")
	}
	v1 := created.Version
	before := proto.Clone(created).(*traits.Publication)
	clk.now = vt.Time("t1")

	if vt.Choose("second", 2) == 0 {
		// ---- update ----
		b2, m2 := vt.Choose("body2", 2), vt.Choose("media2", 2)
		versions := []string{"", v1, "not-the-current-version"}
		vk := vt.Choose("updateVersion", 3)
		upd, err := srv.UpdatePublication(ctx, &traits.UpdatePublicationRequest{Version: versions[vk], Publication: &traits.Publication{
			Id: "p1", Body: vtBodies20[b2], MediaType: vtMedia20[m2], Audience: &traits.Publication_Audience{Name: audName},
		}})
		stored, _ := srv.GetPublication(ctx, &traits.GetPublicationRequest{Id: "p1"})
		if vk == 2 {
			vt.Assert(status.Code(err) == codes.FailedPrecondition, "update-with-a-stale-version-is-refused")
			vt.Assert(proto.Equal(stored, before), "refused-update-changes-nothing")
			vt.Reach("update-refused")
			return
		}
		vt.Assert(err == nil, "update-with-the-current-or-no-version-succeeds")
		if err != nil {
			return
		}
		sameContent := b1 == b2 && m1 == m2
		vt.Assert((upd.Version == v1) == sameContent, "version-changes-exactly-when-the-hashed-content-changes")
		vt.Assert(upd.Version != "", "update-mints-a-version")
		vt.Assert(upd.PublishTime.AsTime().Equal(clk.now), "update-stamps-publish-time-with-the-clock")
		vt.Assert(vt.Or(upd.Audience.GetReceipt() == traits.Publication_Audience_NO_SIGNAL, upd.Audience.GetReceipt() == traits.Publication_Audience_RECEIPT_UNSPECIFIED && audience == nil), "update-resets-the-receipt")
		vt.Assert(proto.Equal(stored, upd), "stored-publication-is-the-update-result")
		vt.Reach("updated")
		return
	}
	// ---- acknowledge (twice) ----
	receipts := []traits.Publication_Audience_Receipt{traits.Publication_Audience_ACCEPTED, traits.Publication_Audience_REJECTED, traits.Publication_Audience_RECEIPT_UNSPECIFIED}
	r1 := receipts[vt.Choose("receipt1", 3)]
	stale := vt.Choose("ackStaleVersion", 2) == 1
	ver := v1
	if stale {
		ver = "not-the-current-version"
	}
	var acked *traits.Publication
	panicked, _ := vt.Try(func() {
		acked, err = srv.AcknowledgePublication(ctx, &traits.AcknowledgePublicationRequest{Id: "p1", Version: ver, Receipt: r1, ReceiptRejectedReason: "because"})
	})
	vt.Assert(!panicked, "acknowledge-never-panics")
	if panicked {
		return
	}
	if r1 == traits.Publication_Audience_RECEIPT_UNSPECIFIED {
		r1 = traits.Publication_Audience_ACCEPTED // "Optional, ACCEPTED is used if not present"
	}
	stored, _ := srv.GetPublication(ctx, &traits.GetPublicationRequest{Id: "p1"})
	if stale {
		vt.Assert(err != nil, "acknowledging-a-stale-version-is-refused")
		vt.Assert(proto.Equal(stored, before), "refused-acknowledgement-changes-nothing")
		vt.Reach("ack-refused")
		return
	}
	vt.Assert(err == nil, "acknowledging-the-current-version-succeeds")
	if err != nil {
		return
	}
	vt.Assert(vt.And(acked.Audience.GetReceipt() == r1, acked.Audience.GetReceiptRejectedReason() == "because"), "acknowledgement-is-recorded")
	vt.Assert(acked.Audience.GetReceiptTime().AsTime().Equal(clk.now), "acknowledgement-stamps-receipt-time-with-the-clock")
	vt.Assert(vt.And(acked.Version == v1, string(acked.Body) == string(before.Body), acked.MediaType == before.MediaType, acked.Audience.GetName() == audName), "acknowledgement-leaves-version-and-content-alone")
	vt.Assert(proto.Equal(stored, acked), "stored-publication-is-the-acknowledged-one")
	ackedCopy := proto.Clone(acked).(*traits.Publication)
	clk.now = vt.Time("t2")
	allow := vt.Choose("allowAcknowledged", 2) == 1
	again, err := srv.AcknowledgePublication(ctx, &traits.AcknowledgePublicationRequest{Id: "p1", Version: v1, Receipt: receipts[vt.Choose("receipt2", 2)], AllowAcknowledged: allow})
	stored, _ = srv.GetPublication(ctx, &traits.GetPublicationRequest{Id: "p1"})
	vt.Assert(proto.Equal(stored, ackedCopy), "second-acknowledgement-changes-nothing")
	if allow {
		vt.Assert(vt.And(err == nil, proto.Equal(again, ackedCopy)), "allowed-second-acknowledgement-returns-the-acknowledged-publication")
	} else {
		vt.Assert(status.Code(err) == codes.FailedPrecondition, "second-acknowledgement-is-refused")
	}
	vt.Reach("acked-twice")
}
