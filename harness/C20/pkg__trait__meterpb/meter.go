//go:build verif

package meterpb

import (
	"time"

	"github.com/smart-core-os/sc-golang/internal/vt"
	"github.com/smart-core-os/sc-golang/pkg/resource"
)

type vtMeterClock struct{ now time.Time }

func (c *vtMeterClock) Now() time.Time { return c.now }

// Meter: the start time is set once, the end time is "now" at every reading, Reset sets both and zeroes the usage.
func VT_C20_MeterTimes() {
	clk := &vtMeterClock{now: vt.Time("t0")}
	m := NewModel(resource.WithClock(clk))
	r0, _ := m.GetMeterReading()
	vt.Assert(vt.And(r0.StartTime != nil, r0.EndTime != nil), "new-meter-has-start-and-end")
	if r0.StartTime == nil || r0.EndTime == nil {
		return
	}
	vt.Assert(vt.And(r0.StartTime.AsTime().Equal(clk.now), r0.EndTime.AsTime().Equal(clk.now)), "new-meter-starts-now")
	t0 := clk.now
	clk.now = vt.Time("t1")
	usage := vt.IntFloat32("usage")
	r1, err := m.RecordReading(usage)
	vt.Assert(err == nil, "record-reading-succeeds")
	if err != nil {
		return
	}
	vt.Assert(r1.Usage == usage, "reading-recorded")
	vt.Assert(r1.EndTime != nil, "end-time-present-after-reading")
	if r1.EndTime != nil {
		vt.Assert(r1.EndTime.AsTime().Equal(clk.now), "end-time-is-now-at-every-reading")
	}
	vt.Assert(r1.StartTime != nil, "start-time-kept-by-a-reading")
	if r1.StartTime != nil {
		vt.Assert(r1.StartTime.AsTime().Equal(t0), "start-time-set-once")
	}
	clk.now = vt.Time("t2")
	r2, err := m.Reset()
	vt.Assert(err == nil, "reset-succeeds")
	if err == nil {
		vt.Assert(r2.Usage == 0, "reset-zeroes-usage")
		vt.Assert(vt.And(r2.StartTime != nil, r2.EndTime != nil), "reset-sets-both-times")
		if r2.StartTime != nil && r2.EndTime != nil {
			vt.Assert(vt.And(r2.StartTime.AsTime().Equal(clk.now), r2.EndTime.AsTime().Equal(clk.now)), "reset-sets-both-times-to-now")
		}
	}
	vt.Reach("done")
}
