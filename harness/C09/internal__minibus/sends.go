//go:build verif

package minibus

import (
	"context"
	"sync"

	"github.com/smart-core-os/sc-golang/internal/vt"
)

// Two concurrent senders on a bus that holds a cancelled, not yet collected listener and live listeners that keep
// receiving: every live listener gets every event exactly once (and, under the race monitor, no two unordered
// accesses touch the same listener slot).
func VT_C09_BusConcurrentSends() {
	var b Bus
	ctx0, cancel0 := context.WithCancel(context.Background())
	_ = b.Listen(ctx0)
	cancel0() // cancelled before anything is sent: the first Send to finish collects it
	ctx, cancel := context.WithCancel(context.Background())
	nl := vt.Bound("liveListeners", 1, 1)
	got := make([][]int, nl)
	var consumers sync.WaitGroup
	for i := 0; i < nl; i++ {
		i := i
		ch := b.Listen(ctx)
		consumers.Add(1)
		go func() {
			defer consumers.Done()
			for e := range ch {
				got[i] = append(got[i], e.(int))
			}
		}()
	}
	var senders sync.WaitGroup
	oks := make([]bool, 2)
	for s := 0; s < 2; s++ {
		s := s
		senders.Add(1)
		go func() {
			defer senders.Done()
			oks[s] = b.Send(context.Background(), s+1)
		}()
	}
	senders.Wait()
	cancel()
	consumers.Wait()
	vt.Assert(vt.And(oks[0], oks[1]), "sends-succeed")
	for i := 0; i < nl; i++ {
		c1, c2 := 0, 0
		for _, e := range got[i] {
			if e == 1 {
				c1++
			} else {
				c2++
			}
		}
		vt.Assert(vt.And(c1 == 1, c2 == 1), "live-listener-gets-every-event-exactly-once")
	}
	vt.Reach("done")
}
