//go:build verif

package minibus

import (
	"google.golang.org/protobuf/proto"

	"github.com/smart-core-os/sc-golang/internal/vt"
)

var vtD = []string{"d0", "d1", "d2", "d3", "d4"}

// DropExcess between a producer (K events then a sentinel) and a consumer receiving at the scheduler's pace:
// what arrives is an in-order subsequence of what was sent and ends with the most recent message.
func VT_C09_DropExcess() {
	k := vt.Bound("events", 3, 4)
	in := make(chan any)
	out := DropExcess(in)
	ids := make([]int64, k+1)
	msgs := make([]any, k+1)
	for i := range msgs {
		m := vt.Msg(vtD[i])
		msgs[i], ids[i] = m, vt.MsgID(m)
		for j := 0; j < i; j++ {
			vt.Assume(ids[j] != ids[i])
		}
	}
	go func() {
		for _, m := range msgs {
			in <- m // never blocks forever: the wrapper always takes the message
		}
	}()
	var got []int64
	for {
		e := <-out
		id := vt.MsgID(e.(proto.Message))
		got = append(got, id)
		if id == ids[k] {
			break
		}
	}
	close(in)
	_, open := <-out
	vt.Assert(!open, "output-closes-when-input-closes")
	// in-order subsequence
	pos := 0
	for _, g := range got {
		found := false
		for pos < len(ids) {
			if ids[pos] == g {
				found = true
				pos++
				break
			}
			pos++
		}
		vt.Assert(found, "received-messages-are-an-in-order-subsequence-of-sent")
	}
	vt.Assert(got[len(got)-1] == ids[k], "most-recent-message-is-received")
	vt.NoLeak()
	vt.Reach("done")
}

// A consumer that never receives does not block the producer.
func VT_C09_DropExcessNeverBlocksProducer() {
	in := make(chan any)
	out := DropExcess(in)
	for i := 0; i < 3; i++ {
		in <- vt.Msg(vtD[i])
	}
	close(in)
	for range out {
	}
	vt.NoLeak()
	vt.Reach("done")
}
