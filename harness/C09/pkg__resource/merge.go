//go:build verif

package resource

import (
	"google.golang.org/protobuf/proto"

	"github.com/smart-core-os/sc-api/go/types"
	"github.com/smart-core-os/sc-golang/internal/vt"
)

// vtView is the state of one id in a subscriber's view.
type vtView struct {
	present bool
	val     proto.Message
}

// vtValidChange builds an arbitrary change of kind k that is valid against view v, and the view after it.
func vtValidChange(name string, id string, v vtView) (CollectionChange, vtView, bool) {
	k := vt.Choose(name+".kind", 4) // 0 ADD 1 UPDATE 2 REPLACE 3 REMOVE
	c := CollectionChange{Id: id, ChangeTime: vt.Time(name + ".t"), LastSeedValue: vt.Bool(name + ".lastSeed")}
	switch k {
	case 0:
		if v.present {
			return c, v, false
		}
		c.ChangeType = types.ChangeType_ADD
		c.NewValue = vt.Msg(name + ".new")
		return c, vtView{true, c.NewValue}, true
	case 1, 2:
		if !v.present {
			return c, v, false
		}
		c.ChangeType = types.ChangeType_UPDATE
		if k == 2 {
			c.ChangeType = types.ChangeType_REPLACE
		}
		c.OldValue = v.val
		c.NewValue = vt.Msg(name + ".new")
		return c, vtView{true, c.NewValue}, true
	default:
		if !v.present {
			return c, v, false
		}
		c.ChangeType = types.ChangeType_REMOVE
		c.OldValue = v.val
		return c, vtView{}, true
	}
}

func vtFold(v vtView, c CollectionChange) vtView {
	switch c.ChangeType {
	case types.ChangeType_ADD, types.ChangeType_UPDATE, types.ChangeType_REPLACE:
		return vtView{true, c.NewValue}
	case types.ChangeType_REMOVE:
		return vtView{}
	}
	return v
}

func vtViewEq(a, b vtView) bool {
	if a.present != b.present {
		return false
	}
	if !a.present {
		return true
	}
	return a.val == b.val
}

// mergeChanges of two consecutive valid changes of one id: folding the merged change (or nothing,
// when send is false) gives the same view as folding both; the old value chains; the merged change is
// itself valid against the original view; last-seed is or-ed.
func VT_C09_MergeChanges() {
	id := vt.Str("id")
	var v0 vtView
	if vt.Choose("present0", 2) == 1 {
		v0 = vtView{true, vt.Msg("v0")}
	}
	a, v1, ok := vtValidChange("a", id, v0)
	if !ok {
		return
	}
	b, v2, ok := vtValidChange("b", id, v1)
	if !ok {
		return
	}
	m, send := mergeChanges(a, b)
	vt.Observe("send", send)
	if !send {
		vt.Assert(vtViewEq(v2, v0), "dropped-pair-cancels-out")
		vt.Reach("dropped")
		return
	}
	vt.Assert(vtViewEq(vtFold(v0, m), v2), "fold-of-merged-equals-fold-of-both")
	vt.Assert(m.Id == id, "id-kept")
	if v0.present {
		vt.Assert(m.OldValue == v0.val, "old-value-chains")
		vt.Assert(m.ChangeType != types.ChangeType_ADD, "merged-valid-against-original-view-present")
	} else {
		vt.Assert(m.OldValue == nil, "old-value-nil-when-absent-before")
		vt.Assert(m.ChangeType == types.ChangeType_ADD, "merged-valid-against-original-view-absent")
	}
	if m.ChangeType == types.ChangeType_REMOVE {
		vt.Assert(m.NewValue == nil, "remove-has-no-new-value")
	} else {
		vt.Assert(m.NewValue == v2.val, "new-value-is-latest")
	}
	vt.Assert(m.LastSeedValue == vt.Or(a.LastSeedValue, b.LastSeedValue), "last-seed-ored")
	vt.Assert(m.ChangeTime == b.ChangeTime, "time-of-latest")
	vt.Reach("merged")
}

// Three consecutive changes merged left to right (a sequence longer than one merge window).
func VT_C09_MergeChanges3() {
	id := vt.Str("id")
	var v0 vtView
	if vt.Choose("present0", 2) == 1 {
		v0 = vtView{true, vt.Msg("v0")}
	}
	a, v1, ok := vtValidChange("a", id, v0)
	if !ok {
		return
	}
	b, v2, ok := vtValidChange("b", id, v1)
	if !ok {
		return
	}
	c, v3, ok := vtValidChange("c", id, v2)
	if !ok {
		return
	}
	m, send := mergeChanges(a, b)
	if !send {
		// the pair vanished: c stands alone against v0 (== v2)
		vt.Assert(vtViewEq(vtFold(v0, c), v3), "after-cancel-next-change-applies")
		vt.Reach("cancelled-then-c")
		return
	}
	m2, send2 := mergeChanges(m, c)
	if !send2 {
		vt.Assert(vtViewEq(v3, v0), "triple-cancels-out")
		vt.Reach("triple-dropped")
		return
	}
	vt.Assert(vtViewEq(vtFold(v0, m2), v3), "fold-of-merged3-equals-fold-of-all")
	if v0.present {
		vt.Assert(m2.OldValue == v0.val, "old-value-chains-3")
	} else {
		vt.Assert(m2.OldValue == nil, "old-nil-3")
	}
	vt.Reach("merged3")
}
