//go:build verif

package resource

import (
	"context"

	"google.golang.org/protobuf/proto"

	"github.com/smart-core-os/sc-api/go/types"
	"github.com/smart-core-os/sc-golang/internal/testproto"
	"github.com/smart-core-os/sc-golang/internal/vt"
)

var vtEv = []string{"e0", "e1", "e2", "e3", "e4", "e5"}

// mergeCollectionExcess between a producer of K valid changes over two ids (then a sentinel on a third id) and a
// consumer receiving at the scheduler's pace: folding what arrives gives the same view as folding everything sent,
// and old values chain per id.
func VT_C09_MergeExcessFold() {
	k := vt.Bound("events", 4, 5)
	idNames := []string{"x", "y"}
	truth := map[string]vtView{}
	in := make(chan any)
	out := mergeCollectionExcess(in)
	var sent []*CollectionChange
	for i := 0; i < k; i++ {
		id := idNames[vt.Choose(vtEv[i]+".id", 2)]
		c, after, ok := vtValidChange(vtEv[i], id, truth[id])
		if !ok {
			return
		}
		truth[id] = after
		cc := c
		sent = append(sent, &cc)
	}
	sentinel := &CollectionChange{Id: "z", ChangeType: types.ChangeType_ADD, NewValue: vt.Msg("sentinel")}
	go func() {
		for _, c := range sent {
			in <- c
		}
		in <- sentinel
	}()
	view := map[string]vtView{}
	for {
		e := (<-out).(*CollectionChange)
		if e.Id == "z" {
			break
		}
		before := view[e.Id]
		switch e.ChangeType {
		case types.ChangeType_ADD:
			vt.Assert(!before.present, "ADD-arrives-only-for-an-id-the-subscriber-lacks")
			vt.Assert(e.OldValue == nil, "ADD-has-no-old-value")
		case types.ChangeType_UPDATE, types.ChangeType_REPLACE, types.ChangeType_REMOVE:
			vt.Assert(before.present, "UPDATE-REMOVE-arrive-only-for-an-id-the-subscriber-holds")
			if before.present {
				vt.Assert(e.OldValue == before.val, "old-value-chains")
			}
		}
		view[e.Id] = vtFold(before, *e)
	}
	close(in)
	for range out {
	}
	for _, id := range idNames {
		vt.Assert(vtViewEq(view[id], truth[id]), "folded-view-equals-fold-of-everything-sent")
	}
	vt.NoLeak()
	vt.Reach("done")
}

type T9 = testproto.TestAllTypes

// Without backpressure a subscriber that never receives does not delay writers.
func VT_C09_SlowReaderNeverBlocksWriter() {
	v := NewValue(WithInitialValue(&T9{DefaultInt32: 1}))
	ctx, cancel := context.WithCancel(context.Background())
	_ = v.Pull(ctx) // nobody ever receives from it
	for i := 0; i < 3; i++ {
		_, err := v.Set(&T9{DefaultInt32: int32(10 + i)})
		vt.Assert(err == nil, "write-completes-while-subscriber-is-stalled")
	}
	c := NewCollection()
	_ = c.Pull(ctx)
	for i := 0; i < 2; i++ {
		_, err := c.Update("a", &T9{DefaultInt32: int32(i)}, WithCreateIfAbsent())
		vt.Assert(err == nil, "collection-write-completes-while-subscriber-is-stalled")
	}
	cancel()
	vt.NoLeak()
	vt.Reach("done")
}

// Without backpressure a subscriber that has not even taken its seed items yet does not delay writers or readers.
func VT_C09_UnseededReaderNeverBlocksWriter() {
	ctx, cancel := context.WithCancel(context.Background())
	c2 := NewCollection(WithInitialRecord("a", &T9{DefaultInt32: 1}), WithInitialRecord("b", &T9{DefaultInt32: 2}))
	_ = c2.Pull(ctx)
	_, err := c2.Update("a", &T9{DefaultInt32: 5})
	vt.Assert(err == nil, "collection-write-completes-while-subscriber-has-not-taken-its-seeds")
	_, err = c2.Delete("b")
	vt.Assert(err == nil, "collection-delete-completes-while-subscriber-has-not-taken-its-seeds")
	_, ok := c2.Get("a")
	vt.Assert(ok, "reads-are-not-stalled-either")
	cancel()
	vt.NoLeak()
	vt.Reach("done")
}

// With backpressure and a reader that has stopped, a Value write returns an error once its send timeout fires instead of hanging.
func VT_C09_BackpressureTimeout() {
	v := NewValue(WithInitialValue(&T9{DefaultInt32: 1}))
	ctx, cancel := context.WithCancel(context.Background())
	ch := v.Pull(ctx, WithBackpressure(true))
	<-ch // the seed; afterwards the reader stops
	var ret proto.Message
	var err error
	// the forwarding goroutine takes one event and then blocks on the stalled reader; the next delivery cannot complete
	_, err = v.Set(&T9{DefaultInt32: 2})
	vt.Assert(err == nil, "first-write-is-taken-by-the-forwarder")
	ret, err = v.Set(&T9{DefaultInt32: 3})
	vt.Assert(err != nil, "blocked-delivery-is-reported-as-an-error")
	vt.Assert(ret == nil, "blocked-delivery-returns-no-value")
	cancel()
	vt.NoLeak()
	vt.Reach("done")
}
