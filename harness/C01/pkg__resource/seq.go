//go:build verif

package resource

import (
	"encoding/base64"
	"time"

	"google.golang.org/grpc/codes"
	"google.golang.org/grpc/status"
	"google.golang.org/protobuf/proto"
	"google.golang.org/protobuf/types/known/fieldmaskpb"

	"github.com/smart-core-os/sc-golang/internal/testproto"
	"github.com/smart-core-os/sc-golang/internal/vt"
	"github.com/smart-core-os/sc-golang/internal/vth"
)

type T = testproto.TestAllTypes

type vtClock struct{}

func (vtClock) Now() time.Time { return vt.Time("clock") }

func vtT(name string) *T {
	m := &T{}
	vth.Small(m, name)
	return m
}

// ---- the write request and its reference semantics ----

type vtWrite struct {
	opts         []WriteOption
	mask         *fieldmaskpb.FieldMask
	maskInvalid  bool
	reset        bool
	expected     *T
	checkErr     error // non-nil: the expected-check rejects
	hasCheck     bool
	before       bool
	after        bool
	createdCalls int
	checkSaw     proto.Message
}

var vtMasks = []*fieldmaskpb.FieldMask{nil, vth.Mask("default_int32"), vth.Mask("optional_int32"), vth.Mask(), vth.Mask("bogus")}

const (
	oReset = 1 << iota
	oExpected
	oCheck
	oBefore
	oAfter
	oWriteTime
	oN = iota
)

// vtWriteOpts draws an arbitrary subset of the write options that apply to both Value and Collection.
func vtWriteOpts(w *vtWrite) {
	mi := vt.Choose("mask", len(vtMasks))
	w.mask = vtMasks[mi]
	w.maskInvalid = mi == 4
	if w.mask != nil {
		w.opts = append(w.opts, WithUpdateMask(w.mask))
	}
	subsets := vth.Subsets(oN)
	set := subsets[vt.Choose("options", len(subsets))]
	if set&oReset != 0 {
		w.reset = true
		w.opts = append(w.opts, WithResetPaths("default_int64"))
	}
	if set&oExpected != 0 {
		w.expected = vtT("expected")
		w.opts = append(w.opts, WithExpectedValue(w.expected))
	}
	if set&oCheck != 0 {
		w.hasCheck = true
		if vt.Choose("checkFails", 2) == 1 {
			w.checkErr = status.Error(codes.FailedPrecondition, "check says no")
		}
		w.opts = append(w.opts, WithExpectedCheck(func(old proto.Message) error {
			w.checkSaw = old
			return w.checkErr
		}))
	}
	if set&oBefore != 0 {
		w.before = true
		w.opts = append(w.opts, InterceptBefore(func(old, value proto.Message) {
			// delta update: add the stored quantity to the written one
			o, _ := old.(*T) // old is nil for a Value that holds nothing yet
			value.(*T).DefaultInt64 += o.GetDefaultInt64()
		}))
	}
	if set&oAfter != 0 {
		w.after = true
		w.opts = append(w.opts, InterceptAfter(func(old, nw proto.Message) {
			nw.(*T).DefaultInt32 = nw.(*T).DefaultInt32 + 1
		}))
	}
	if set&oWriteTime != 0 {
		w.opts = append(w.opts, WithWriteTime(vt.Time("writeTime")))
	}
}

// vtRefWrite is the reference: what a write of `written` onto `stored` (nil: no current value, treated as empty)
// must produce. Returns the expected new value, or the expected status code.
func vtRefWrite(w *vtWrite, stored, written *T) (*T, codes.Code) {
	if w.maskInvalid {
		return nil, codes.InvalidArgument
	}
	old := stored
	if old == nil {
		old = &T{}
	}
	if w.expected != nil && (stored == nil || !proto.Equal(stored, w.expected)) {
		return nil, codes.FailedPrecondition
	}
	if w.hasCheck && w.checkErr != nil {
		return nil, codes.FailedPrecondition
	}
	val := proto.Clone(written).(*T)
	if w.before {
		val.DefaultInt64 += old.DefaultInt64
	}
	res := proto.Clone(old).(*T)
	switch {
	case w.mask == nil:
		res = val
	case len(w.mask.Paths) == 0:
		// nothing
	default:
		if vth.Has(w.mask, "default_int32") {
			res.DefaultInt32 = val.DefaultInt32
		}
		if vth.Has(w.mask, "optional_int32") {
			res.OptionalInt32 = val.OptionalInt32
		}
	}
	if w.reset && !(w.mask != nil && len(w.mask.Paths) == 0) {
		res.DefaultInt64 = 0
	}
	if w.after {
		res.DefaultInt32 = res.DefaultInt32 + 1
	}
	return res, codes.OK
}

// One arbitrary Set (any subset of the write options) on a Value holding an arbitrary message, against the reference.
func VT_C01_ValueStep() {
	var stored *T
	opts := []Option{WithClock(vtClock{})}
	if vt.Choose("hasInitial", 2) == 1 {
		stored = vtT("stored")
		opts = append(opts, WithInitialValue(stored))
	}
	v := NewValue(opts...)
	var storedCopy *T
	if stored != nil {
		storedCopy = proto.Clone(stored).(*T)
	}
	// Get returns the stored value
	if stored != nil {
		vt.Assert(proto.Equal(v.Get(), storedCopy), "get-returns-stored-value")
	} else {
		vt.Assert(v.Get() == nil, "get-of-empty-value-is-nil")
	}
	w := &vtWrite{}
	vtWriteOpts(w)
	written := vtT("written")
	want, wantCode := vtRefWrite(w, storedCopy, written)
	got, err := v.Set(written, w.opts...)
	vt.Assert(status.Code(err) == wantCode, "set-status-code-as-reference")
	if wantCode != codes.OK {
		vt.Assert(got == nil, "failed-set-returns-no-value")
		if stored != nil {
			vt.Assert(proto.Equal(v.Get(), storedCopy), "failed-set-changes-nothing")
		} else {
			vt.Assert(v.Get() == nil, "failed-set-changes-nothing-empty")
		}
		vt.Reach("failed")
		return
	}
	if err != nil {
		return
	}
	vt.Assert(proto.Equal(got, want), "set-returns-reference-value")
	vt.Assert(proto.Equal(v.Get(), want), "get-after-set-returns-reference-value")
	if w.hasCheck && stored != nil {
		vt.Assert(proto.Equal(w.checkSaw, storedCopy), "expected-check-saw-the-stored-value")
	}
	vt.Reach("ok")
}

// ---- Collection ----

var vtIDs = []string{"id1", "id2", "id3"}

type vtColl struct {
	c      *Collection
	direct bool // the collection has an id interceptor: look at the stored map directly
	ids    []string
	bodies []*T // deep copies of what was stored
}

func vtNewColl(extra ...Option) *vtColl {
	n := vt.Choose("items", vt.Bound("items", 2, 3)+1)
	s := &vtColl{}
	opts := append([]Option{WithClock(vtClock{})}, extra...)
	for i := 0; i < n; i++ {
		id := vt.StrOrd(vtIDs[i])
		vt.Assume(id != "")
		for _, o := range s.ids {
			vt.Assume(o != id)
		}
		b := &T{DefaultInt32: vt.Int32(vtIDs[i] + ".body.i32"), DefaultInt64: vt.Int64(vtIDs[i] + ".body.i64")}
		s.ids = append(s.ids, id)
		s.bodies = append(s.bodies, proto.Clone(b).(*T))
		opts = append(opts, WithInitialRecord(id, b))
	}
	s.c = NewCollection(opts...)
	return s
}

func (s *vtColl) find(id string) (*T, int) {
	for i := range s.ids {
		if s.ids[i] == id {
			return s.bodies[i], i
		}
	}
	return nil, -1
}

// vtCheckState: Get of every model id returns the model body, and List is the model sorted by id.
func (s *vtColl) check(label string) {
	if s.direct {
		vt.Assert(len(s.c.byId) == len(s.ids), label+":model-size")
	}
	for i, id := range s.ids {
		var got proto.Message
		var ok bool
		if s.direct {
			var it *item
			it, ok = s.c.byId[id]
			if ok {
				got = it.body
			}
		} else {
			got, ok = s.c.Get(id)
		}
		vt.Assert(ok, label+":model-id-present")
		if ok {
			vt.Assert(proto.Equal(got, s.bodies[i]), label+":model-body-stored")
		}
	}
}

// checkList: List is the model sorted by id.
func (s *vtColl) checkList(label string) {
	list := s.c.List()
	vt.Assert(len(list) == len(s.ids), label+":list-length")
	if len(list) != len(s.ids) {
		return
	}
	order := make([]int, len(s.ids))
	for i := range order {
		order[i] = i
	}
	for i := 1; i < len(order); i++ {
		for j := i; j > 0 && s.ids[order[j]] < s.ids[order[j-1]]; j-- {
			order[j], order[j-1] = order[j-1], order[j]
		}
	}
	for k, i := range order {
		vt.Assert(proto.Equal(list[k], s.bodies[i]), label+":list-sorted-by-id")
	}
}

// One arbitrary Get / List / Add / Update / Delete with an arbitrary subset of options on an arbitrary collection.
func VT_C01_CollectionStep() {
	vtCollectionStep(vtNewColl(), nil)
}

// vtInterceptor is an arbitrary id mapping that moves at most two ids (k1 -> v1, k2 -> v2, identity elsewhere):
// not necessarily idempotent, not necessarily injective.
type vtInterceptor struct{ k1, v1, k2, v2 string }

func vtNewInterceptor() *vtInterceptor {
	return &vtInterceptor{vt.StrOrd("ic.k1"), vt.StrOrd("ic.v1"), vt.StrOrd("ic.k2"), vt.StrOrd("ic.v2")}
}

func (ic *vtInterceptor) apply(id string) string {
	return vt.IteStr(id == ic.k1, ic.v1, vt.IteStr(id == ic.k2, ic.v2, id))
}

// The same step on a collection with an arbitrary id interceptor I: every call behaves as the call on the plain map
// with key I(id) (applied exactly once).
func VT_C01_IDInterceptor() {
	ic := vtNewInterceptor()
	s := vtNewColl(WithIDInterceptor(ic.apply))
	s.direct = true
	vtCollectionStep(s, ic)
}

func vtCollectionStep(s *vtColl, ic *vtInterceptor) {
	id := vt.StrOrd("id")
	key := id
	if ic != nil {
		key = ic.apply(id)
	}
	cur, at := s.find(key)
	op := vt.Choose("op", 4)
	switch op {
	case 0: // Get
		got, ok := s.c.Get(id)
		vt.Assert(ok == (cur != nil), "get-found-iff-present")
		if cur != nil && ok {
			vt.Assert(proto.Equal(got, cur), "get-returns-stored-body")
		} else {
			vt.Assert(got == nil, "get-absent-returns-nil")
		}
		s.check("after-get")
		vt.Reach("get")
	case 1, 2: // Update / Add
		w := &vtWrite{}
		if ic == nil {
			vtWriteOpts(w)
		}
		created := 0
		w.opts = append(w.opts, WithCreatedCallback(func() { created++ }))
		createIfAbsent, expectAbsent := false, false
		if op == 1 {
			if vt.Choose("createIfAbsent", 2) == 1 {
				createIfAbsent = true
				w.opts = append(w.opts, WithCreateIfAbsent())
			}
			if vt.Choose("expectAbsent", 2) == 1 {
				expectAbsent = true
				w.opts = append(w.opts, WithExpectAbsent())
			}
		} else {
			createIfAbsent, expectAbsent = true, true
		}
		written := vtT("written")
		// reference (computed first: interceptors may modify the written message)
		var want *T
		wantCode := codes.OK
		switch {
		case w.maskInvalid:
			wantCode = codes.InvalidArgument
		case cur != nil && expectAbsent:
			wantCode = codes.AlreadyExists
		case cur == nil && !createIfAbsent:
			wantCode = codes.NotFound
		case cur == nil:
			// created: the old value is an empty message; an expected value can only match an empty message
			want, wantCode = vtRefWrite(w, &T{}, written)
		default:
			want, wantCode = vtRefWrite(w, cur, written)
		}
		var got proto.Message
		var err error
		if op == 1 {
			got, err = s.c.Update(id, written, w.opts...)
		} else {
			got, err = s.c.Add(id, written, w.opts...)
		}
		vt.Assert(status.Code(err) == wantCode, "write-status-code-as-reference")
		if wantCode != codes.OK {
			vt.Assert(got == nil, "failed-write-returns-no-value")
			s.check("failed-write-changes-nothing")
			vt.Reach("write-failed")
			return
		}
		if err != nil {
			return
		}
		vt.Assert(proto.Equal(got, want), "write-returns-reference-value")
		if cur == nil {
			vt.Assert(created == 1, "created-callback-once-on-create")
			s.ids = append(s.ids, key)
			s.bodies = append(s.bodies, want)
		} else {
			vt.Assert(created == 0, "created-callback-not-on-update")
			s.bodies[at] = want
		}
		s.check("after-write")
		vt.Reach("write-ok")
	case 3: // Delete
		var opts []WriteOption
		allowMissing := vt.Choose("allowMissing", 2) == 1
		if allowMissing {
			opts = append(opts, WithAllowMissing(true))
		}
		var expected *T
		if vt.Choose("hasExpected", 2) == 1 {
			expected = vtT("expected")
			opts = append(opts, WithExpectedValue(expected))
		}
		checkFails := false
		if vt.Choose("hasCheck", 2) == 1 {
			checkFails = vt.Choose("checkFails", 2) == 1
			opts = append(opts, WithExpectedCheck(func(old proto.Message) error {
				if checkFails {
					return status.Error(codes.FailedPrecondition, "no")
				}
				return nil
			}))
		}
		got, err := s.c.Delete(id, opts...)
		switch {
		case cur == nil && allowMissing:
			vt.Assert(vt.And(err == nil, got == nil), "delete-absent-allow-missing-succeeds")
			s.check("delete-absent")
		case cur == nil:
			vt.Assert(status.Code(err) == codes.NotFound, "delete-absent-not-found")
			s.check("delete-absent")
		case checkFails || (expected != nil && !proto.Equal(cur, expected)):
			vt.Assert(status.Code(err) == codes.FailedPrecondition, "delete-precondition-failed")
			s.check("failed-delete-changes-nothing")
		default:
			vt.Assert(err == nil, "delete-succeeds")
			vt.Assert(proto.Equal(got, cur), "delete-returns-removed-body")
			s.ids = append(append([]string(nil), s.ids[:at]...), s.ids[at+1:]...)
			s.bodies = append(append([]*T(nil), s.bodies[:at]...), s.bodies[at+1:]...)
			_, ok := s.c.Get(id)
			vt.Assert(!ok, "deleted-id-is-gone")
			_, ok = s.c.byId[key]
			vt.Assert(!ok, "deleted-key-is-gone")
			s.check("after-delete")
		}
		vt.Reach("delete")
	}
}

// Generated ids: non-empty, unused, reported exactly once, usable afterwards.
func VT_C01_GeneratedID() {
	vtGeneratedID(vtNewColl(), nil)
}

// vtRng is a random source whose bytes are arbitrary.
type vtRng struct{}

func (vtRng) Read(p []byte) (int, error) {
	for i := range p {
		p[i] = vt.Uint8("rng")
	}
	return len(p), nil
}

// Generated ids on a collection with an idempotent id interceptor (a canonicalisation such as lower-casing, here:
// one arbitrary first-try candidate k is mapped to an arbitrary canonical id v, everything else is canonical already):
// the reported id is unused and usable for later Get / Update / Delete.
// Bounds: the collection holds at most one item; only a first-try candidate (6 random bytes) can be non-canonical.
func VT_C01_GeneratedIDIntercepted() {
	var kb [6]byte
	for i := range kb {
		kb[i] = vt.Uint8("ic.k")
	}
	k := base64.RawURLEncoding.EncodeToString(kb[:])
	v := vt.StrOrd("ic.v")
	vt.Assume(v != "")
	vt.Assume(v < "0001000000000000") // below every generated candidate: v is canonical
	ic := &vtInterceptor{k1: k, v1: v, k2: k, v2: v}
	s := &vtColl{direct: true}
	opts := []Option{WithClock(vtClock{}), WithRNG(vtRng{}), WithIDInterceptor(ic.apply)}
	if vt.Choose("items", 2) == 1 {
		id := vt.StrOrd("id1")
		vt.Assume(id != "")
		vt.Assume(id < "0001000000000000")
		b := &T{DefaultInt32: vt.Int32("id1.body.i32")}
		s.ids = append(s.ids, id)
		s.bodies = append(s.bodies, proto.Clone(b).(*T))
		opts = append(opts, WithInitialRecord(id, b))
	}
	s.c = NewCollection(opts...)
	vtGeneratedID(s, ic)
}

func vtGeneratedID(s *vtColl, ic *vtInterceptor) {
	var reported []string
	written := vtT("written")
	got, err := s.c.Add("", written, WithGenIDIfAbsent(), WithIDCallback(func(id string) { reported = append(reported, id) }))
	if err != nil {
		// every one of the 10 candidates collided with an existing id (the random source is arbitrary)
		vt.Assert(status.Code(err) == codes.Aborted, "id-generation-exhausted-is-aborted")
		vt.Assert(len(s.ids) > 0, "id-generation-cannot-fail-on-empty-collection")
		s.check("failed-generated-add-changes-nothing")
		vt.Reach("exhausted")
		return
	}
	vt.Assert(len(reported) == 1, "generated-id-reported-exactly-once")
	if len(reported) != 1 {
		return
	}
	gid := reported[0]
	vt.Assert(gid != "", "generated-id-non-empty")
	gkey := gid
	if ic != nil {
		gkey = ic.apply(gid)
	}
	prev, _ := s.find(gkey)
	vt.Assert(prev == nil, "generated-id-was-unused")
	vt.Assert(proto.Equal(got, written), "generated-add-returns-body")
	g2, ok := s.c.Get(gid)
	vt.Assert(vt.And(ok, proto.Equal(g2, written)), "generated-id-usable-for-get")
	_, err = s.c.Update(gid, vtT("second"))
	vt.Assert(err == nil, "generated-id-usable-for-update")
	_, err = s.c.Delete(gid)
	vt.Assert(err == nil, "generated-id-usable-for-delete")
	s.check("after-generated-roundtrip")
	vt.Reach("generated")
}

// List returns every item exactly once, sorted by id (ids arbitrary, so every insertion order / id order).
func VT_C01_List() {
	s := vtNewColl()
	s.checkList("list")
	// after adding one more item and removing one, still sorted
	id := vt.StrOrd("id")
	cur, _ := s.find(id)
	if cur == nil && id != "" {
		b := &T{DefaultInt32: vt.Int32("new.i32")}
		_, err := s.c.Add(id, b)
		vt.Assert(err == nil, "add-of-new-id-succeeds")
		s.ids = append(s.ids, id)
		s.bodies = append(s.bodies, b)
		s.checkList("list-after-add")
	}
	vt.Reach("done")
}

// List (and Get) under combinations of read options: the include predicate is evaluated on the stored item and the
// read mask is applied to what is returned - as filtering and then projecting the reference map does.
func VT_C01_ListReadOptions() {
	s := vtNewColl()
	var ropts []ReadOption
	include := vt.Choose("include", 2) == 1
	if include {
		ropts = append(ropts, WithInclude(func(id string, m proto.Message) bool { return m.(*T).DefaultInt32 > 0 }))
	}
	masked := vt.Choose("readMask", 2) == 1
	if masked {
		ropts = append(ropts, WithReadPaths(&T{}, "default_int64"))
	}
	list := s.c.List(ropts...)
	// reference: stored items in id order, filtered on the stored body, then projected
	order := make([]int, len(s.ids))
	for i := range order {
		order[i] = i
	}
	for i := 1; i < len(order); i++ {
		for j := i; j > 0 && s.ids[order[j]] < s.ids[order[j-1]]; j-- {
			order[j], order[j-1] = order[j-1], order[j]
		}
	}
	var want []*T
	for _, i := range order {
		b := s.bodies[i]
		if include && !(b.DefaultInt32 > 0) {
			continue
		}
		if masked {
			b = &T{DefaultInt64: b.DefaultInt64}
		}
		want = append(want, b)
	}
	vt.Assert(len(list) == len(want), "list-has-exactly-the-items-whose-stored-body-matches")
	if len(list) == len(want) {
		for k := range want {
			vt.Assert(proto.Equal(list[k], want[k]), "listed-items-are-the-projected-stored-bodies-in-id-order")
		}
	}
	s.check("list-with-read-options-changes-nothing")
	vt.Reach("done")
}

// A write under a nested update mask (default_foreign_message.c) on a Value and on a Collection item: the named leaf
// equals the written message's (absent or zero there means cleared), its sibling leaf and everything else stay.
func VT_C01_NestedMaskStep() {
	stored, written := &T{DefaultInt64: vt.Int64("stored.i64")}, &T{DefaultInt64: vt.Int64("written.i64")}
	vth.Foreign(stored, "stored")
	vth.Foreign(written, "written")
	storedCopy := proto.Clone(stored).(*T)
	wantC := written.GetDefaultForeignMessage().GetC()
	wantD := storedCopy.GetDefaultForeignMessage().GetD()
	var got proto.Message
	var err error
	var after *T
	if vt.Choose("resource", 2) == 0 {
		v := NewValue(WithInitialValue(stored), WithClock(vtClock{}))
		got, err = v.Set(written, WithUpdatePaths("default_foreign_message.c"))
		after = v.Get().(*T)
	} else {
		c := NewCollection(WithInitialRecord("0000000000000001", stored), WithClock(vtClock{}))
		got, err = c.Update("0000000000000001", written, WithUpdatePaths("default_foreign_message.c"))
		g, _ := c.Get("0000000000000001")
		after = g.(*T)
	}
	vt.Assert(err == nil, "nested-mask-write-succeeds")
	if err != nil {
		return
	}
	vt.Assert(proto.Equal(got, after), "write-returns-what-is-stored")
	vt.Assert(after.GetDefaultForeignMessage().GetC() == wantC, "masked-nested-leaf-equals-written-absent-means-cleared")
	vt.Assert(after.GetDefaultForeignMessage().GetD() == wantD, "sibling-nested-leaf-unchanged")
	vt.Assert(after.DefaultInt64 == storedCopy.DefaultInt64, "field-outside-the-mask-unchanged")
	vt.Reach("done")
}

// A write whose reset mask names an unknown field fails (with or without an update mask) and changes nothing.
func VT_C01_InvalidResetMask() {
	stored := vtT("stored")
	storedCopy := proto.Clone(stored).(*T)
	opts := []WriteOption{WithResetPaths("bogus_field")}
	if vt.Choose("withUpdateMask", 2) == 1 {
		opts = append(opts, WithUpdatePaths("default_int32"))
	}
	var got proto.Message
	var err error
	var after *T
	if vt.Choose("resource", 2) == 0 {
		v := NewValue(WithInitialValue(stored), WithClock(vtClock{}))
		got, err = v.Set(vtT("written"), opts...)
		after = v.Get().(*T)
	} else {
		c := NewCollection(WithInitialRecord("0000000000000001", stored), WithClock(vtClock{}))
		got, err = c.Update("0000000000000001", vtT("written"), opts...)
		g, _ := c.Get("0000000000000001")
		after = g.(*T)
	}
	vt.Assert(err != nil, "invalid-reset-mask-is-refused")
	vt.Assert(got == nil, "failed-write-returns-no-value")
	vt.Assert(proto.Equal(after, storedCopy), "failed-write-changes-nothing")
	vt.Reach("done")
}
