//go:build verif

package resource

import (
	"sync"

	"google.golang.org/grpc/codes"
	"google.golang.org/grpc/status"
	"google.golang.org/protobuf/proto"

	"github.com/smart-core-os/sc-golang/internal/testproto"
	"github.com/smart-core-os/sc-golang/internal/vt"
)

type T2 = testproto.TestAllTypes

var vtW = []string{"w0", "w1", "w2"}

func vtLoserCode(err error) bool {
	c := status.Code(err)
	return c == codes.Aborted || c == codes.AlreadyExists || c == codes.FailedPrecondition || c == codes.NotFound || c == codes.Unavailable
}

// N concurrent read-modify-write Sets (delta interceptor) on one Value: no increment is lost.
func VT_C02_ValueDeltas() {
	n := vt.Bound("writers", 2, 2)
	init := vt.Int64("init")
	v := NewValue(WithInitialValue(&T2{DefaultInt64: init}))
	deltas := make([]int64, n)
	errs := make([]error, n)
	rets := make([]proto.Message, n)
	var wg sync.WaitGroup
	for i := 0; i < n; i++ {
		i := i
		deltas[i] = vt.Int64(vtW[i] + ".delta")
		wg.Add(1)
		go func() {
			defer wg.Done()
			d := deltas[i]
			// the documented delta idiom: the written message carries the delta, the interceptor adds the stored value
			rets[i], errs[i] = v.Set(&T2{DefaultInt64: d}, InterceptBefore(func(old, value proto.Message) {
				value.(*T2).DefaultInt64 += old.(*T2).GetDefaultInt64()
			}))
		}()
	}
	wg.Wait()
	sum := init
	for i := 0; i < n; i++ {
		if errs[i] == nil {
			sum += deltas[i]
		} else {
			vt.Assert(vtLoserCode(errs[i]), "loser-reports-a-race-status")
		}
	}
	final := v.Get().(*T2)
	vt.Assert(final.DefaultInt64 == sum, "no-lost-increment")
	vt.Reach("done")
}

// Two concurrent compare-and-set writes with the same expected value: at most one succeeds (when they write different values).
func VT_C02_ValueCAS() {
	init := vt.Int32("init")
	v := NewValue(WithInitialValue(&T2{DefaultInt32: init}))
	vals := []int32{vt.Int32("w0.val"), vt.Int32("w1.val")}
	vt.Assume(vt.And(vals[0] != init, vals[1] != init))
	errs := make([]error, 2)
	var wg sync.WaitGroup
	for i := 0; i < 2; i++ {
		i := i
		wg.Add(1)
		go func() {
			defer wg.Done()
			_, errs[i] = v.Set(&T2{DefaultInt32: vals[i]}, WithExpectedValue(&T2{DefaultInt32: init}))
		}()
	}
	wg.Wait()
	vt.Assert(vt.Or(errs[0] != nil, errs[1] != nil), "cas-at-most-one-success")
	final := v.Get().(*T2).DefaultInt32
	switch {
	case errs[0] == nil:
		vt.Assert(final == vals[0], "cas-winner-value-stored")
	case errs[1] == nil:
		vt.Assert(final == vals[1], "cas-winner-value-stored")
	default:
		vt.Assert(final == init, "cas-no-winner-nothing-changes")
	}
	for i := 0; i < 2; i++ {
		if errs[i] != nil {
			vt.Assert(vtLoserCode(errs[i]), "loser-reports-a-race-status")
		}
	}
	vt.Reach("done")
}

// Two concurrent Adds of one id never both succeed.
func VT_C02_TwoAdds() {
	var opts []Option
	if vt.Choose("otherItem", 2) == 1 {
		opts = append(opts, WithInitialRecord("0000000000000001", &T2{DefaultInt32: 7}))
	}
	c := NewCollection(opts...)
	id := vt.StrOrd("id")
	vt.Assume(vt.And(id != "", id != "0000000000000001"))
	bodies := []*T2{{DefaultInt32: vt.Int32("w0.val")}, {DefaultInt32: vt.Int32("w1.val")}}
	vt.Assume(bodies[0].DefaultInt32 != bodies[1].DefaultInt32)
	errs := make([]error, 2)
	var wg sync.WaitGroup
	for i := 0; i < 2; i++ {
		i := i
		wg.Add(1)
		go func() {
			defer wg.Done()
			_, errs[i] = c.Add(id, bodies[i])
		}()
	}
	wg.Wait()
	vt.Assert(vt.Or(errs[0] != nil, errs[1] != nil), "two-concurrent-adds-never-both-succeed")
	got, ok := c.Get(id)
	if errs[0] == nil || errs[1] == nil {
		vt.Assert(ok, "added-id-present")
	}
	if errs[0] == nil && errs[1] != nil {
		vt.Assert(proto.Equal(got, bodies[0]), "winner-body-stored")
	}
	if errs[1] == nil && errs[0] != nil {
		vt.Assert(proto.Equal(got, bodies[1]), "winner-body-stored")
	}
	for i := 0; i < 2; i++ {
		if errs[i] != nil {
			vt.Assert(vtLoserCode(errs[i]), "loser-reports-a-race-status")
		}
	}
	vt.Reach("done")
}

// Two concurrent delta upserts (Update + create-if-absent, no expect-absent) of one id, which may or may not exist yet:
// every write that reports success takes effect exactly once.
func VT_C02_TwoUpserts() {
	id := "0000000000000002"
	init := int64(0)
	var opts []Option
	exists := vt.Choose("exists", 2) == 1
	if exists {
		init = vt.Int64("init")
		opts = append(opts, WithInitialRecord(id, &T2{DefaultInt64: init}))
	}
	c := NewCollection(opts...)
	deltas := []int64{vt.Int64("w0.delta"), vt.Int64("w1.delta")}
	errs := make([]error, 2)
	var wg sync.WaitGroup
	for i := 0; i < 2; i++ {
		i := i
		wg.Add(1)
		go func() {
			defer wg.Done()
			d := deltas[i]
			_, errs[i] = c.Update(id, &T2{DefaultInt64: d}, WithCreateIfAbsent(), InterceptBefore(func(old, value proto.Message) {
				value.(*T2).DefaultInt64 += old.(*T2).GetDefaultInt64()
			}))
		}()
	}
	wg.Wait()
	sum := init
	for i := 0; i < 2; i++ {
		if errs[i] == nil {
			sum += deltas[i]
		} else {
			vt.Assert(vtLoserCode(errs[i]), "loser-reports-a-race-status")
		}
	}
	got, ok := c.Get(id)
	if errs[0] == nil || errs[1] == nil || exists {
		vt.Assert(ok, "upserted-id-present")
	}
	if ok {
		vt.Assert(got.(*T2).DefaultInt64 == sum, "no-lost-upsert-increment")
	}
	vt.Reach("done")
}

// A Delete with an expected value races an Update: the Delete never removes a version its precondition did not see.
func VT_C02_DeleteVsUpdate() {
	v0, v1 := vt.Int32("v0"), vt.Int32("v1")
	vt.Assume(v0 != v1)
	c := NewCollection(WithInitialRecord("x", &T2{DefaultInt32: v0}))
	var delRet proto.Message
	var delErr, updErr error
	var wg sync.WaitGroup
	wg.Add(2)
	go func() {
		defer wg.Done()
		delRet, delErr = c.Delete("x", WithExpectedValue(&T2{DefaultInt32: v0}))
	}()
	go func() {
		defer wg.Done()
		_, updErr = c.Update("x", &T2{DefaultInt32: v1})
	}()
	wg.Wait()
	got, ok := c.Get("x")
	if delErr == nil {
		vt.Assert(delRet.(*T2).DefaultInt32 == v0, "delete-removed-the-version-it-expected")
		if updErr == nil {
			// the update came first? then the delete would have seen v1 and failed. So the update ran after the delete... which cannot succeed without create-if-absent
			vt.Assert(false, "delete-and-update-both-succeed-only-in-a-legal-order")
		}
		vt.Assert(!ok, "deleted-item-gone")
	} else {
		vt.Assert(vtLoserCode(delErr), "loser-reports-a-race-status")
		vt.Assert(ok, "failed-delete-leaves-item")
		if updErr == nil {
			vt.Assert(got.(*T2).DefaultInt32 == v1, "update-stored")
		}
	}
	if updErr != nil {
		vt.Assert(vtLoserCode(updErr), "loser-reports-a-race-status")
	}
	vt.Reach("done")
}
