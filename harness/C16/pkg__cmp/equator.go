//go:build verif

package cmp

import (
	"google.golang.org/protobuf/proto"
	"google.golang.org/protobuf/types/known/timestamppb"

	"github.com/smart-core-os/sc-api/go/traits"
	"github.com/smart-core-os/sc-golang/internal/testproto"
	"github.com/smart-core-os/sc-golang/internal/vt"
	"github.com/smart-core-os/sc-golang/internal/vth"
)

// vtPresence: a message whose explicit-presence fields, empty sub-messages and oneof arms are present or absent by
// case split, with symbolic scalar contents ("unset versus default" is exactly what distinguishes them).
func vtPresence(name string) *testproto.TestAllTypes {
	m := &testproto.TestAllTypes{DefaultInt32: vt.Int32(name + ".i32")}
	if vt.Choose(name+".opt32", 2) == 1 {
		v := vt.Int32(name + ".opt32.v")
		m.OptionalInt32 = &v
	}
	if vt.Choose(name+".opt64", 2) == 1 {
		v := vt.Int64(name + ".opt64.v")
		m.OptionalInt64 = &v
	}
	if vt.Choose(name+".nested", 2) == 1 {
		m.DefaultNestedMessage = &testproto.TestAllTypes_NestedMessage{A: vt.Int32(name + ".nested.a")}
	}
	if vt.Bound("presenceFull", 0, 1) == 1 {
		vth.Foreign(m, name)
		vth.Oneof(m, name)
	} else if vt.Choose(name+".oneofInt", 2) == 1 {
		m.OneofDefault = &testproto.TestAllTypes_OneofDefaultInt32{OneofDefaultInt32: vt.Int32(name + ".oneof.i")}
	}
	return m
}

// The default comparer agrees with proto.Equal on every pair (unset versus default, nested, oneof).
func VT_C16_EqualAgreesWithProtoEqual() {
	x, y := vtPresence("x"), vtPresence("y")
	eq := Equal()
	vt.Assert(eq(x, y) == proto.Equal(x, y), "default-comparer-agrees-with-proto-equal")
	vt.Assert(eq(x, x), "default-comparer-reflexive")
	vt.Reach("done")
}

// Lists, maps, floats (NaN), nil and different types.
func VT_C16_EqualComposite() {
	x, y := &testproto.TestAllTypes{}, &testproto.TestAllTypes{}
	vth.Repeated(x, "x")
	vth.Repeated(y, "y")
	vth.Map(x, "x")
	vth.Map(y, "y")
	x.DefaultDouble, y.DefaultDouble = vt.Float64("x.f"), vt.Float64("y.f")
	eq := Equal()
	vt.Assert(eq(x, y) == proto.Equal(x, y), "default-comparer-agrees-with-proto-equal-composite")
	var nilMsg proto.Message
	vt.Assert(vt.And(eq(nilMsg, nilMsg), !eq(x, nilMsg), !eq(nilMsg, y)), "nil-equals-only-nil")
	f := &testproto.ForeignMessage{C: x.DefaultInt32}
	vt.Assert(!eq(x, f), "different-types-are-not-equal")
	vt.Reach("done")
}

// change_time inside Change messages is ignored, everything else is not.
func VT_C16_EqualIgnoresChangeTime() {
	t1, t2 := vt.Time("t1"), vt.Time("t2")
	s1, s2 := traits.OnOff_State(vt.Choose("s1", 3)), traits.OnOff_State(vt.Choose("s2", 3))
	x := &traits.PullOnOffResponse_Change{Name: "n", ChangeTime: timestamppb.New(t1), OnOff: &traits.OnOff{State: s1}}
	y := &traits.PullOnOffResponse_Change{Name: "n", ChangeTime: timestamppb.New(t2), OnOff: &traits.OnOff{State: s2}}
	vt.Assert(Equal()(x, y) == (s1 == s2), "change-time-ignored-rest-compared")
	vt.Reach("done")
}
