//go:build verif

package cmp

import (
	"google.golang.org/protobuf/proto"
	pref "google.golang.org/protobuf/reflect/protoreflect"
	"google.golang.org/protobuf/types/known/durationpb"
	"google.golang.org/protobuf/types/known/timestamppb"

	"github.com/smart-core-os/sc-golang/internal/testproto"
	"github.com/smart-core-os/sc-golang/internal/vt"
)

var vtCmpNames = []string{"c0", "c1", "c2", "c3"}

func vtFD(name string) pref.FieldDescriptor {
	return (&testproto.TestAllTypes{}).ProtoReflect().Descriptor().Fields().ByName(pref.Name(name))
}
func vtWKFD(name string) pref.FieldDescriptor {
	return (&testproto.WellKnown{}).ProtoReflect().Descriptor().Fields().ByName(pref.Name(name))
}

// ---- A. combinators over arbitrary comparers (each answers an arbitrary (equal, ok)) ----

func VT_C16_ValueAndOr() {
	n := vt.Choose("n", 4)
	eqs := make([]bool, n)
	oks := make([]bool, n)
	vals := make([]Value, n)
	calls := make([]int, n)
	for i := 0; i < n; i++ {
		i := i
		eqs[i], oks[i] = vt.Bool(vtCmpNames[i]+".eq"), vt.Bool(vtCmpNames[i]+".ok")
		vals[i] = func(fd pref.FieldDescriptor, x, y pref.Value) (bool, bool) {
			calls[i]++
			return eqs[i], oks[i]
		}
	}
	fd := vtFD("default_int32")
	x, y := pref.ValueOfInt32(vt.Int32("x")), pref.ValueOfInt32(vt.Int32("y"))
	anyOK := false
	conj := true
	disj := false
	for i := 0; i < n; i++ {
		anyOK = vt.Or(anyOK, oks[i])
		conj = vt.And(conj, vt.Implies(oks[i], eqs[i]))
		disj = vt.Or(disj, vt.And(oks[i], eqs[i]))
	}
	ae, aok := ValueAnd(vals...)(fd, x, y)
	vt.Assert(aok == anyOK, "ValueAnd-ok-is-disjunction-of-oks")
	vt.Assert(vt.Implies(aok, ae == conj), "ValueAnd-is-conjunction-of-those-that-answered")
	oe, ook := ValueOr(vals...)(fd, x, y)
	vt.Assert(ook == anyOK, "ValueOr-ok-is-disjunction-of-oks")
	vt.Assert(vt.Implies(ook, oe == disj), "ValueOr-is-disjunction-of-those-that-answered")
	vt.Reach("done")
}

func VT_C16_MessageAndOr() {
	n := vt.Choose("n", 4)
	eqs := make([]bool, n)
	ms := make([]Message, n)
	for i := 0; i < n; i++ {
		i := i
		eqs[i] = vt.Bool(vtCmpNames[i] + ".eq")
		ms[i] = func(x, y proto.Message) bool { return eqs[i] }
	}
	conj, disj := true, false
	for i := 0; i < n; i++ {
		conj = vt.And(conj, eqs[i])
		disj = vt.Or(disj, eqs[i])
	}
	x, y := vt.Msg("x"), vt.Msg("y")
	vt.Assert(And(ms...)(x, y) == conj, "And-is-conjunction")
	vt.Assert(Or(ms...)(x, y) == disj, "Or-is-disjunction")
	vt.Reach("done")
}

// ---- B. tolerance comparers, bit-precise ----

// FloatValueApprox is reflexive on every float64 (NaN and infinities included).
func VT_C16_FloatApproxReflexive() {
	fraction, margin := vt.Float64("fraction"), vt.Float64("margin")
	vt.Assume(vt.And(fraction >= 0, margin >= 0)) // documented use: non-negative tolerances
	x := vt.Float64("x")
	fd := vtFD("default_double")
	eq, ok := FloatValueApprox(fraction, margin)(fd, pref.ValueOfFloat64(x), pref.ValueOfFloat64(x))
	vt.Observe("eq", eq)
	vt.Assert(ok, "float-comparer-answers-for-double-fields")
	vt.Assert(eq, "float-approx-reflexive")
	vt.Reach("done")
}

// FloatValueApprox is symmetric.
func VT_C16_FloatApproxSymmetric() {
	fraction, margin := vt.Float64("fraction"), vt.Float64("margin")
	vt.Assume(vt.And(fraction >= 0, margin >= 0))
	x, y := vt.Float64("x"), vt.Float64("y")
	fd := vtFD("default_double")
	c := FloatValueApprox(fraction, margin)
	e1, _ := c(fd, pref.ValueOfFloat64(x), pref.ValueOfFloat64(y))
	e2, _ := c(fd, pref.ValueOfFloat64(y), pref.ValueOfFloat64(x))
	vt.Assert(e1 == e2, "float-approx-symmetric")
	vt.Reach("done")
}

// Tolerance comparers only answer for fields of their own kind.
func VT_C16_OwnKindOnly() {
	f := FloatValueApprox(vt.Float64("fraction"), vt.Float64("margin"))
	d := DurationValueWithin(vt.Dur("d"))
	dp := DurationValueWithinP(vt.Float32("p"))
	t := TimeValueWithin(vt.Dur("td"))
	// int32, string, bool fields
	i1, i2 := pref.ValueOfInt32(vt.Int32("i1")), pref.ValueOfInt32(vt.Int32("i2"))
	for _, c := range []Value{f, d, dp, t} {
		_, ok := c(vtFD("default_int32"), i1, i2)
		vt.Assert(!ok, "not-own-kind-int32")
	}
	s1, s2 := pref.ValueOfString(vt.Str("s1")), pref.ValueOfString(vt.Str("s2"))
	for _, c := range []Value{f, d, dp, t} {
		_, ok := c(vtFD("default_string"), s1, s2)
		vt.Assert(!ok, "not-own-kind-string")
	}
	// a message field that is neither Duration nor Timestamp
	m1 := pref.ValueOfMessage((&testproto.ForeignMessage{C: vt.Int32("c1")}).ProtoReflect())
	m2 := pref.ValueOfMessage((&testproto.ForeignMessage{C: vt.Int32("c2")}).ProtoReflect())
	for _, c := range []Value{f, d, dp, t} {
		_, ok := c(vtFD("default_foreign_message"), m1, m2)
		vt.Assert(!ok, "not-own-kind-other-message")
	}
	// float comparer does answer float and double fields; duration comparer duration fields
	_, ok := f(vtFD("default_float"), pref.ValueOfFloat32(vt.Float32("f1")), pref.ValueOfFloat32(vt.Float32("f2")))
	vt.Assert(ok, "float-answers-float-fields")
	vt.Reach("done")
}

func vtDurVal(name string) (pref.Value, int64) {
	d := vt.Dur(name)
	return pref.ValueOfMessage(durationpb.New(d).ProtoReflect()), int64(d)
}

// absDiffLE: |x-y| <= d over the mathematical integers (no wrap-around).
func absDiffLE(x, y, d int64) bool {
	hi, lo := x, y
	if x < y {
		hi, lo = y, x
	}
	diff := hi - lo // true difference is >= 0; it wrapped iff diff < 0
	return vt.And(diff >= 0, diff <= d)
}

// DurationValueWithin(d), d >= 0: accepts exactly the pairs with |x-y| <= d, is reflexive and symmetric.
func VT_C16_DurationWithin() {
	d := vt.Dur("d")
	vt.Assume(d >= 0)
	x, xd := vtDurVal("x")
	y, yd := vtDurVal("y")
	fd := vtWKFD("default_duration")
	c := DurationValueWithin(d)
	eq, ok := c(fd, x, y)
	vt.Observe("eq", eq)
	vt.Assert(ok, "duration-comparer-answers")
	vt.Assert(eq == absDiffLE(xd, yd, int64(d)), "duration-within-accepts-exactly-the-pairs-in-tolerance")
	eq2, _ := c(fd, y, x)
	vt.Assert(eq == eq2, "duration-within-symmetric")
	eqr, _ := c(fd, x, x)
	vt.Assert(eqr, "duration-within-reflexive")
	vt.Reach("done")
}

// DurationValueWithinP: reflexive and symmetric (as every tolerance comparer must be).
// Bound: durations in [1, 4096] ns, p in {0.5, 2} (int64->float32 conversion plus division is slow for the solver).
func VT_C16_DurationWithinP() {
	p := float32(0.5)
	if vt.Choose("p", 2) == 1 {
		p = 2
	}
	x, xd := vtDurVal("x")
	y, yd := vtDurVal("y")
	vt.Assume(vt.And(xd >= 1, xd <= 4096, yd >= 1, yd <= 4096))
	fd := vtWKFD("default_duration")
	c := DurationValueWithinP(p)
	eqr, ok := c(fd, x, x)
	vt.Assert(ok, "durationP-comparer-answers")
	vt.AssertKF(eqr, "durationP-reflexive", "KF-C16-1", true)
	e1, _ := c(fd, x, y)
	e2, _ := c(fd, y, x)
	vt.AssertKF(e1 == e2, "durationP-symmetric", "KF-C16-1", true)
	vt.Reach("done")
}

func vtTimeVal(name string) (pref.Value, int64) {
	t := vt.Time(name)
	return pref.ValueOfMessage(timestamppb.New(t).ProtoReflect()), t.UnixNano()
}

// TimeValueWithin(d) on instants up to ~584 years apart (time.Time.Sub saturates beyond 2^63 ns): still symmetric, and
// instants further apart than any tolerance are never within it.
func VT_C16_TimeWithinFarApart() {
	d := vt.Dur("d")
	vt.Assume(vt.And(d >= 0, d < 1<<62))
	tx, ty := vt.TimeWide("x"), vt.TimeWide("y")
	x := pref.ValueOfMessage(timestamppb.New(tx).ProtoReflect())
	y := pref.ValueOfMessage(timestamppb.New(ty).ProtoReflect())
	fd := vtWKFD("default_timestamp")
	c := TimeValueWithin(d)
	eq, ok := c(fd, x, y)
	vt.Assert(ok, "time-comparer-answers")
	eq2, _ := c(fd, y, x)
	vt.Assert(eq == eq2, "time-within-symmetric-far-apart")
	xn, yn := tx.UnixNano(), ty.UnixNano()
	if (xn < -(1<<62) && yn > 1<<62) || (yn < -(1<<62) && xn > 1<<62) {
		vt.Assert(!eq, "instants-more-than-2^63-ns-apart-are-not-within-a-smaller-tolerance")
	}
	vt.Reach("done")
}

// TimeValueWithin(d), d >= 0.
func VT_C16_TimeWithin() {
	d := vt.Dur("d")
	vt.Assume(d >= 0)
	x, xn := vtTimeVal("x")
	y, yn := vtTimeVal("y")
	fd := vtWKFD("default_timestamp")
	c := TimeValueWithin(d)
	eq, ok := c(fd, x, y)
	vt.Assert(ok, "time-comparer-answers")
	vt.Assert(eq == absDiffLE(xn, yn, int64(d)), "time-within-accepts-exactly-the-pairs-in-tolerance")
	eq2, _ := c(fd, y, x)
	vt.Assert(eq == eq2, "time-within-symmetric")
	eqr, _ := c(fd, x, x)
	vt.Assert(eqr, "time-within-reflexive")
	vt.Reach("done")
}
