//go:build verif

package electricpb

import (
	"context"
	"strconv"

	"github.com/smart-core-os/sc-api/go/traits"
	"github.com/smart-core-os/sc-api/go/types"
	"github.com/smart-core-os/sc-golang/internal/vt"
	"github.com/smart-core-os/sc-golang/pkg/resource"
)

var vtK = []string{"k0", "k1", "k2", "k3", "k4", "k5"}

const vtKeyLimit = "0800000000000000" // keys are ordinals below 2^59 (the page-token model keeps a tag bit above)

// One paging step of ListModes from an arbitrary position: arbitrary sorted ids, a token that is empty / names an
// arbitrary key (present or not) / is malformed, and an arbitrary int32 page size.
// Contiguity + progress + "next starts after last" give, by induction on the position, every item exactly once.
func VT_C15_ListModes() {
	n := vt.Choose("n", vt.Bound("items", 4, 6)+1)
	ids := make([]string, n)
	var opts []resource.Option
	for i := 0; i < n; i++ {
		ids[i] = vt.StrOrd(vtK[i])
		vt.Assume(vt.And(ids[i] != "", ids[i] < vtKeyLimit))
		if i > 0 {
			vt.Assume(ids[i-1] < ids[i])
		}
		opts = append(opts, resource.WithInitialRecord(ids[i], &traits.ElectricMode{Id: ids[i]}))
	}
	srv := &ModelServer{model: &Model{modes: resource.NewCollection(opts...)}}
	req := &traits.ListModesRequest{PageSize: vt.Int32("pageSize")}
	start := 0
	tokKind := vt.Choose("token", 3)
	switch tokKind {
	case 1:
		last := vt.StrOrd("lastKey")
		vt.Assume(vt.And(last != "", last < vtKeyLimit))
		tok, err := encodePageToken(&types.PageToken{PageStart: &types.PageToken_LastResourceName{LastResourceName: last}})
		vt.Assert(err == nil, "token-encodes")
		req.PageToken = tok
		for i := 0; i < n; i++ {
			if ids[i] <= last {
				start = i + 1
			}
		}
	case 2:
		req.PageToken = "!!! not a page token !!!"
	}
	var resp *traits.ListModesResponse
	var err error
	panicked, _ := vt.Try(func() { resp, err = srv.ListModes(context.Background(), req) })
	vt.Assert(!panicked, "list-never-panics")
	if panicked {
		return
	}
	if tokKind == 2 {
		vt.Assert(err != nil, "malformed-token-is-an-error")
		vt.Reach("malformed")
		return
	}
	if req.PageSize < 0 {
		vt.Assert(err != nil, "negative-page-size-is-an-error")
		vt.Reach("negative")
		return
	}
	vt.Assert(err == nil, "well-formed-request-succeeds")
	if err != nil {
		return
	}
	eff := int(req.PageSize)
	if eff == 0 {
		eff = 50
	}
	if eff > 1000 {
		eff = 1000
	}
	end := start + eff
	if end > n {
		end = n
	}
	vt.Assert(int(resp.TotalSize) == n, "total-size-is-the-number-of-items")
	vt.Assert(len(resp.Modes) == end-start, "page-is-the-contiguous-run-after-the-token-no-larger-than-requested")
	if len(resp.Modes) == end-start {
		for i := start; i < end; i++ {
			vt.Assert(resp.Modes[i-start].Id == ids[i], "page-items-in-listing-order")
		}
	}
	if resp.NextPageToken == "" {
		vt.Assert(end == n, "empty-next-token-only-when-nothing-remains")
	} else {
		pt := &types.PageToken{}
		vt.Assert(decodePageToken(resp.NextPageToken, pt) == nil, "next-token-is-well-formed")
		vt.Assert(end > start, "non-final-page-is-not-empty")
		if end > start {
			vt.Assert(pt.GetLastResourceName() == ids[end-1], "next-token-names-the-last-returned-item")
		}
	}
	vt.Reach("page")
}

// capPageSize over the whole int range: 0 -> 50, capped at 1000, otherwise unchanged.
func VT_C15_CapPageSize() {
	p := vt.Int("p")
	got := capPageSize(p)
	switch {
	case p == 0:
		vt.Assert(got == 50, "zero-means-default-50")
	case p > 1000:
		vt.Assert(got == 1000, "capped-at-1000")
	default:
		vt.Assert(got == p, "in-range-unchanged")
	}
	vt.Reach("done")
}

func vtHex16(i int) string {
	h := strconv.FormatInt(int64(i), 16)
	return "0000000000000000"[:16-len(h)] + h
}

// More items than the 1000 cap and a page size above the cap: the page is capped at 1000 and the chain continues.
func VT_C15_ListModesOverCap() {
	vt.Unwind(1200)
	const n = 1001
	var opts []resource.Option
	for i := 1; i <= n; i++ {
		id := vtHex16(i)
		opts = append(opts, resource.WithInitialRecord(id, &traits.ElectricMode{Id: id}))
	}
	srv := &ModelServer{model: &Model{modes: resource.NewCollection(opts...)}}
	ps := vt.Int32("pageSize")
	vt.Assume(ps > 1000)
	resp, err := srv.ListModes(context.Background(), &traits.ListModesRequest{PageSize: ps})
	vt.Assert(err == nil, "well-formed-request-succeeds")
	if err != nil {
		return
	}
	vt.Assert(len(resp.Modes) == 1000, "page-capped-at-1000")
	vt.Assert(int(resp.TotalSize) == n, "total-size-is-the-number-of-items")
	vt.Assert(resp.NextPageToken != "", "capped-page-continues-with-a-next-token")
	if resp.NextPageToken != "" {
		resp2, err2 := srv.ListModes(context.Background(), &traits.ListModesRequest{PageSize: ps, PageToken: resp.NextPageToken})
		vt.Assert(err2 == nil, "second-page-succeeds")
		if err2 == nil {
			vt.Assert(len(resp2.Modes) == 1, "last-page-has-the-remaining-item")
			if len(resp2.Modes) == 1 {
				vt.Assert(resp2.Modes[0].Id == vtHex16(n), "every-item-exactly-once")
			}
			vt.Assert(resp2.NextPageToken == "", "chain-ends")
		}
	}
	vt.Reach("done")
}
