//go:build verif

package wastepb

import (
	"context"
	"strconv"

	"github.com/smart-core-os/sc-api/go/traits"
	"github.com/smart-core-os/sc-golang/internal/vt"
)

var vtRecIDs = []string{"r0", "r1", "r2", "r3", "r4", "r5"}

// One paging step of ListWasteRecords (latest first, numeric position tokens) from an arbitrary position.
func VT_C15_ListWasteRecords() {
	n := vt.Choose("n", vt.Bound("items", 4, 6)+1)
	m := &Model{}
	for i := 0; i < n; i++ {
		m.allWasteRecords = append(m.allWasteRecords, &traits.WasteRecord{Id: vtRecIDs[i]})
	}
	srv := &ModelServer{model: m}
	req := &traits.ListWasteRecordsRequest{PageSize: vt.Int32("pageSize")}
	start := n
	tokKind := vt.Choose("token", 3)
	corrupt := false
	switch tokKind {
	case 1:
		k := vt.Choose("position", n+3) - 1 // -1 .. n+1: positions the server never hands out are corrupt tokens
		req.PageToken = strconv.Itoa(k)
		start = k
		corrupt = k <= 0 || k > n
	case 2:
		req.PageToken = "not-a-number"
	}
	var resp *traits.ListWasteRecordsResponse
	var err error
	panicked, _ := vt.Try(func() { resp, err = srv.ListWasteRecords(context.Background(), req) })
	vt.Assert(!panicked, "list-never-panics")
	if panicked {
		return
	}
	if tokKind == 2 || corrupt {
		vt.Assert(err != nil, "malformed-token-is-an-error")
		vt.Reach("malformed")
		return
	}
	if req.PageSize < 0 {
		vt.Assert(err != nil, "negative-page-size-is-an-error")
		vt.Reach("negative")
		return
	}
	vt.Assert(err == nil, "well-formed-request-succeeds")
	if err != nil {
		return
	}
	eff := int(req.PageSize)
	if eff == 0 {
		eff = 50
	}
	if eff > 1000 {
		eff = 1000
	}
	end := start - eff // exclusive lower position
	if end < 0 {
		end = 0
	}
	vt.Assert(int(resp.TotalSize) == n, "total-size-is-the-number-of-items")
	vt.Assert(len(resp.WasteRecords) == start-end, "page-is-the-contiguous-run-after-the-token-no-larger-than-requested")
	if len(resp.WasteRecords) == start-end {
		for i := 0; i < start-end; i++ {
			vt.Assert(resp.WasteRecords[i].Id == vtRecIDs[start-1-i], "page-items-latest-first")
		}
	}
	if resp.NextPageToken == "" {
		vt.Assert(end == 0, "empty-next-token-only-when-nothing-remains")
	} else {
		vt.Assert(start > end, "non-final-page-is-not-empty")
		vt.Assert(resp.NextPageToken == strconv.Itoa(end), "next-token-continues-after-the-last-returned-item")
	}
	vt.Reach("page")
}

// More items than the 1000 cap and a page size above the cap: the page is capped and the chain continues.
func VT_C15_ListWasteRecordsOverCap() {
	vt.Unwind(1200)
	const n = 1001
	m := &Model{}
	for i := 0; i < n; i++ {
		m.allWasteRecords = append(m.allWasteRecords, &traits.WasteRecord{Id: strconv.Itoa(i)})
	}
	srv := &ModelServer{model: m}
	ps := vt.Int32("pageSize")
	vt.Assume(ps > 1000)
	resp, err := srv.ListWasteRecords(context.Background(), &traits.ListWasteRecordsRequest{PageSize: ps})
	vt.Assert(err == nil, "well-formed-request-succeeds")
	if err != nil {
		return
	}
	vt.Assert(len(resp.WasteRecords) == 1000, "page-capped-at-1000")
	vt.Assert(int(resp.TotalSize) == n, "total-size-is-the-number-of-items")
	vt.Assert(resp.NextPageToken == "1", "capped-page-continues-with-a-next-token")
	if resp.NextPageToken != "" {
		resp2, err2 := srv.ListWasteRecords(context.Background(), &traits.ListWasteRecordsRequest{PageSize: ps, PageToken: resp.NextPageToken})
		vt.Assert(err2 == nil, "second-page-succeeds")
		if err2 == nil {
			vt.Assert(vt.And(len(resp2.WasteRecords) == 1, resp2.NextPageToken == ""), "last-page-has-the-remaining-item")
			if len(resp2.WasteRecords) == 1 {
				vt.Assert(resp2.WasteRecords[0].Id == "0", "every-item-exactly-once")
			}
		}
	}
	vt.Reach("done")
}
