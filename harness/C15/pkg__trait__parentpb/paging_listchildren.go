//go:build verif

package parentpb

import (
	"context"

	"github.com/smart-core-os/sc-api/go/traits"
	"github.com/smart-core-os/sc-api/go/types"
	"github.com/smart-core-os/sc-golang/internal/vt"
	"github.com/smart-core-os/sc-golang/pkg/resource"
)

var vtK = []string{"k0", "k1", "k2", "k3", "k4", "k5"}

const vtKeyLimit = "0800000000000000" // keys are ordinals below 2^59 (the page-token model keeps a tag bit above)

// One paging step of ListChildren from an arbitrary position: arbitrary sorted ids, a token that is empty / names an
// arbitrary key (present or not) / is malformed, and an arbitrary int32 page size.
// Contiguity + progress + "next starts after last" give, by induction on the position, every item exactly once.
func VT_C15_ListChildren() {
	n := vt.Choose("n", vt.Bound("items", 4, 6)+1)
	ids := make([]string, n)
	var opts []resource.Option
	for i := 0; i < n; i++ {
		ids[i] = vt.StrOrd(vtK[i])
		vt.Assume(vt.And(ids[i] != "", ids[i] < vtKeyLimit))
		if i > 0 {
			vt.Assume(ids[i-1] < ids[i])
		}
		opts = append(opts, resource.WithInitialRecord(ids[i], &traits.Child{Name: ids[i]}))
	}
	srv := &ModelServer{model: &Model{children: resource.NewCollection(opts...)}}
	req := &traits.ListChildrenRequest{PageSize: vt.Int32("pageSize")}
	start := 0
	tokKind := vt.Choose("token", 3)
	switch tokKind {
	case 1:
		last := vt.StrOrd("lastKey")
		vt.Assume(vt.And(last != "", last < vtKeyLimit))
		tok, err := encodePageToken(&types.PageToken{PageStart: &types.PageToken_LastResourceName{LastResourceName: last}})
		vt.Assert(err == nil, "token-encodes")
		req.PageToken = tok
		for i := 0; i < n; i++ {
			if ids[i] <= last {
				start = i + 1
			}
		}
	case 2:
		req.PageToken = "!!! not a page token !!!"
	}
	var resp *traits.ListChildrenResponse
	var err error
	panicked, _ := vt.Try(func() { resp, err = srv.ListChildren(context.Background(), req) })
	vt.Assert(!panicked, "list-never-panics")
	if panicked {
		return
	}
	if tokKind == 2 {
		vt.Assert(err != nil, "malformed-token-is-an-error")
		vt.Reach("malformed")
		return
	}
	if req.PageSize < 0 {
		vt.Assert(err != nil, "negative-page-size-is-an-error")
		vt.Reach("negative")
		return
	}
	vt.Assert(err == nil, "well-formed-request-succeeds")
	if err != nil {
		return
	}
	eff := int(req.PageSize)
	if eff == 0 {
		eff = 50
	}
	if eff > 1000 {
		eff = 1000
	}
	end := start + eff
	if end > n {
		end = n
	}
	vt.Assert(int(resp.TotalSize) == n, "total-size-is-the-number-of-items")
	vt.Assert(len(resp.Children) == end-start, "page-is-the-contiguous-run-after-the-token-no-larger-than-requested")
	if len(resp.Children) == end-start {
		for i := start; i < end; i++ {
			vt.Assert(resp.Children[i-start].Name == ids[i], "page-items-in-listing-order")
		}
	}
	if resp.NextPageToken == "" {
		vt.Assert(end == n, "empty-next-token-only-when-nothing-remains")
	} else {
		pt := &types.PageToken{}
		vt.Assert(decodePageToken(resp.NextPageToken, pt) == nil, "next-token-is-well-formed")
		vt.Assert(end > start, "non-final-page-is-not-empty")
		if end > start {
			vt.Assert(pt.GetLastResourceName() == ids[end-1], "next-token-names-the-last-returned-item")
		}
	}
	vt.Reach("page")
}


var vtMixedNames = []string{"AHU-01", "ahu-02", "B", "a", "c", "Zed"}

// Whole paging walks over names that mix upper and lower case (concrete names, so that the code's own string
// functions run on them): following next_page_token returns every child exactly once, in the order of the unpaged listing.
func VT_C15_ListChildrenMixedCase() {
	n := 3
	var names []string
	var opts []resource.Option
	for i := 0; i < n; i++ {
		k := vt.Choose(vtK[i]+".name", len(vtMixedNames))
		name := vtMixedNames[k]
		for _, o := range names {
			vt.Assume(o != name)
		}
		names = append(names, name)
		opts = append(opts, resource.WithInitialRecord(name, &traits.Child{Name: name}))
	}
	srv := &ModelServer{model: &Model{children: resource.NewCollection(opts...)}}
	pageSize := int32(1 + vt.Choose("pageSize", 3))
	var got []string
	token := ""
	pages := 0
	for {
		resp, err := srv.ListChildren(context.Background(), &traits.ListChildrenRequest{PageSize: pageSize, PageToken: token})
		vt.Assert(err == nil, "well-formed-request-succeeds")
		if err != nil {
			return
		}
		pages++
		vt.Assert(len(resp.Children) <= int(pageSize), "page-no-larger-than-requested")
		for _, c := range resp.Children {
			got = append(got, c.Name)
		}
		token = resp.NextPageToken
		if token == "" || pages > n+1 {
			break
		}
	}
	vt.Assert(token == "", "token-chain-ends")
	vt.Assert(len(got) == n, "every-child-exactly-once")
	for _, want := range names {
		c := 0
		for _, g := range got {
			if g == want {
				c++
			}
		}
		vt.Assert(c == 1, "every-child-exactly-once")
	}
	// the listing's order is the order of the unpaged listing
	full, err := srv.ListChildren(context.Background(), &traits.ListChildrenRequest{PageSize: 1000})
	vt.Assert(vt.And(err == nil, len(full.GetChildren()) == n), "unpaged-listing-has-every-child")
	if err == nil && len(full.Children) == n && len(got) == n {
		for i := range got {
			vt.Assert(got[i] == full.Children[i].Name, "walk-in-the-listing-order")
		}
	}
	vt.Reach("done")
}
