//go:build verif

package hailpb

import (
	"context"

	"google.golang.org/protobuf/proto"
	"google.golang.org/protobuf/types/known/fieldmaskpb"

	"github.com/smart-core-os/sc-api/go/traits"
	"github.com/smart-core-os/sc-golang/internal/vth"
	"github.com/smart-core-os/sc-golang/pkg/resource"
)

func vtMask(mask *fieldmaskpb.FieldMask) []resource.ReadOption {
	if mask == nil {
		return nil
	}
	return []resource.ReadOption{resource.WithReadMask(mask)}
}

// Hails: every message crossing the model's API is isolated from the store and from the others.
func VT_C07_HailModel() {
	m := NewModel()
	vth.CollectionIsolation(vth.CollOps{
		New: func(v int, id string) proto.Message {
			return &traits.Hail{Id: id, Origin: &traits.Hail_Location{Name: "lobby", DisplayName: []string{"d1", "d2"}[v-1]}, State: traits.Hail_CALLED}
		},
		ID:       func(x proto.Message) string { return x.(*traits.Hail).Id },
		Scribble: func(x proto.Message) { h := x.(*traits.Hail); h.State = traits.Hail_ARRIVED; h.Origin.Name = "scribbled" },
		Create:   func(x proto.Message) (proto.Message, error) { return m.CreateHail(x.(*traits.Hail)) },
		Get: func(id string, mask *fieldmaskpb.FieldMask) proto.Message {
			h, _ := m.GetHail(id, vtMask(mask)...)
			return h
		},
		Update: func(id string, x proto.Message) (proto.Message, error) { return m.UpdateHail(x.(*traits.Hail)) },
		Delete: func(id string) (proto.Message, error) { return m.DeleteHail(id) },
		List: func(mask *fieldmaskpb.FieldMask) []proto.Message {
			var out []proto.Message
			for _, h := range m.ListHails(vtMask(mask)...) {
				out = append(out, h)
			}
			return out
		},
		Sub: func(ctx context.Context) func() (proto.Message, proto.Message, bool) {
			ch := m.PullHails(ctx)
			return func() (proto.Message, proto.Message, bool) {
				select {
				case c, ok := <-ch:
					if !ok {
						return nil, nil, false
					}
					return c.OldValue, c.NewValue, true
				default:
					return nil, nil, false
				}
			}
		},
	})
}
