//go:build verif

package openclosepb

import (
	"context"

	"google.golang.org/protobuf/proto"
	"google.golang.org/protobuf/types/known/fieldmaskpb"

	"github.com/smart-core-os/sc-api/go/traits"
	"github.com/smart-core-os/sc-golang/internal/vt"
	"github.com/smart-core-os/sc-golang/pkg/resource"
)

// PullPositions (seed and update) with any read mask is a read-only operation: the stored positions are exactly what
// they were, and messages obtained from earlier reads do not change.
func VT_C07_OpenClosePullPositions() {
	p0 := &traits.OpenClosePosition{Direction: traits.OpenClosePosition_UP, OpenPercent: vt.IntF("p0.open"), Resistance: traits.OpenClosePosition_HELD}
	m := NewModel(WithInitialPositions(p0))
	before, err := m.GetPositions()
	vt.Assert(err == nil, "get-positions-succeeds")
	beforeCopy := proto.Clone(before).(*traits.OpenClosePositions)
	vt.Freeze(before, "positions-read-before-subscribing")
	masks := []*fieldmaskpb.FieldMask{nil, {Paths: []string{"states.open_percent"}}, {Paths: []string{"preset"}}, {Paths: []string{"states"}}}
	mask := masks[vt.Choose("mask", len(masks))]
	var ropts []resource.ReadOption
	if mask != nil {
		ropts = append(ropts, resource.WithReadMask(mask))
	}
	ctx, cancel := context.WithCancel(context.Background())
	defer cancel()
	ch := m.PullPositions(ctx, ropts...)
	seed := <-ch
	if mask == nil || mask.Paths[0] != "preset" {
		vt.Assert(len(seed.Positions.States) == 1, "seed-carries-the-position")
	}
	after, _ := m.GetPositions()
	vt.Assert(proto.Equal(after, beforeCopy), "pull-seed-leaves-stored-positions-unchanged")
	vt.Assert(proto.Equal(before, beforeCopy), "earlier-read-result-unchanged-by-pull")
	if vt.Choose("update", 2) == 1 {
		w := &traits.OpenClosePosition{Direction: traits.OpenClosePosition_UP, OpenPercent: vt.IntF("w.open"), Resistance: traits.OpenClosePosition_SLOW}
		vt.Assume(w.OpenPercent != p0.OpenPercent)
		wCopy := proto.Clone(w).(*traits.OpenClosePosition)
		got, err := m.UpdatePosition(w)
		vt.Assert(err == nil, "update-succeeds")
		if mask == nil || mask.Paths[0] != "preset" {
			<-ch // (under the preset mask both projections are empty and the update is suppressed as a duplicate)
		}
		stored, _ := m.GetPosition(traits.OpenClosePosition_UP)
		vt.Assert(proto.Equal(stored, wCopy), "pull-update-leaves-stored-position-unchanged")
		vt.Assert(proto.Equal(got, wCopy), "write-result-unchanged-by-pull")
		vt.Assert(proto.Equal(before, beforeCopy), "earlier-read-result-unchanged-by-write")
	}
	vt.CheckFrozen()
	vt.Reach("done")
}

// GetPositions / GetPosition with any read mask are read-only: stored positions and earlier results stay what they were.
func VT_C07_OpenCloseGetPositions() {
	p0 := &traits.OpenClosePosition{Direction: traits.OpenClosePosition_UP, OpenPercent: vt.IntF("p0.open"), Resistance: traits.OpenClosePosition_HELD}
	p1 := &traits.OpenClosePosition{Direction: traits.OpenClosePosition_DOWN, OpenPercent: 20, Resistance: traits.OpenClosePosition_SLOW}
	m := NewModel(WithInitialPositions(p0, p1))
	before, err := m.GetPositions()
	vt.Assert(err == nil, "get-positions-succeeds")
	beforeCopy := proto.Clone(before).(*traits.OpenClosePositions)
	vt.Freeze(before, "positions-read-earlier")
	masks := []*fieldmaskpb.FieldMask{{Paths: []string{"states.open_percent"}}, {Paths: []string{"states.direction"}}, {Paths: []string{"preset"}}, {Paths: []string{"states"}}, {Paths: []string{"open_percent"}}, {}}
	mask := masks[vt.Choose("mask", len(masks))]
	panicked, _ := vt.Try(func() {
		if vt.Choose("single", 2) == 1 {
			m.GetPosition(traits.OpenClosePosition_UP, resource.WithReadMask(mask))
		} else {
			m.GetPositions(resource.WithReadMask(mask))
		}
	})
	vt.Assert(!panicked, "masked-read-never-panics")
	after, _ := m.GetPositions()
	vt.Assert(proto.Equal(after, beforeCopy), "masked-get-leaves-stored-positions-unchanged")
	vt.Assert(proto.Equal(before, beforeCopy), "earlier-read-result-unchanged-by-masked-get")
	vt.CheckFrozen()
	vt.Reach("done")
}
