//go:build verif

package parentpb

import (
	"google.golang.org/protobuf/proto"

	"github.com/smart-core-os/sc-api/go/traits"
	"github.com/smart-core-os/sc-golang/internal/vt"
	"github.com/smart-core-os/sc-golang/pkg/trait"
)

// Snapshots handed out by ListChildren / AddChildTrait never change because of later AddChildTrait / RemoveChildTrait.
func VT_C07_ParentTraits() {
	m := NewModel()
	m.AddChildTrait("c", trait.Name("0000000000000020"), trait.Name("0000000000000040"))
	if vt.Choose("thirdTrait", 2) == 1 {
		m.AddChildTrait("c", trait.Name("0000000000000060"))
	}
	for _, ch := range m.ListChildren() {
		vt.Freeze(ch, "list-children-snapshot")
	}
	names := []trait.Name{"0000000000000010", "0000000000000020", "0000000000000030", "0000000000000040", "0000000000000050"}
	n := names[vt.Choose("name", len(names))]
	var res *traits.Child
	if vt.Choose("op", 2) == 0 {
		res, _ = m.AddChildTrait("c", n)
	} else {
		res = m.RemoveChildTrait("c", n)
	}
	if res != nil {
		vt.Freeze(res, "write-result")
		snap := proto.Clone(res)
		// another change afterwards
		if vt.Choose("op2", 2) == 0 {
			m.AddChildTrait("c", names[vt.Choose("name2", len(names))])
		} else {
			m.RemoveChildTrait("c", names[vt.Choose("name2", len(names))])
		}
		vt.Assert(proto.Equal(res, snap), "write-result-unchanged-by-later-write")
	}
	vt.CheckFrozen()
	vt.Reach("done")
}
