//go:build verif

package publicationpb

import (
	"context"

	"google.golang.org/protobuf/proto"
	"google.golang.org/protobuf/types/known/fieldmaskpb"

	"github.com/smart-core-os/sc-api/go/traits"
	"github.com/smart-core-os/sc-golang/internal/vth"
	"github.com/smart-core-os/sc-golang/pkg/resource"
)

func vtMask(mask *fieldmaskpb.FieldMask) []resource.ReadOption {
	if mask == nil {
		return nil
	}
	return []resource.ReadOption{resource.WithReadMask(mask)}
}

// Publications (with the write options the server uses: new version, publish time, receipt reset).
func VT_C07_PublicationModel() {
	m := NewModel()
	vth.CollectionIsolation(vth.CollOps{
		New: func(v int, id string) proto.Message {
			if id == "" {
				id = "p1" // (a generated id would be symbolic, and the version is a real md5 over concrete content)
			}
			return &traits.Publication{Id: id, Body: [][]byte{[]byte("b1"), []byte("b2")}[v-1], MediaType: "text/plain",
				Audience: &traits.Publication_Audience{Name: "aud", Receipt: traits.Publication_Audience_ACCEPTED}}
		},
		ID: func(x proto.Message) string { return x.(*traits.Publication).Id },
		Scribble: func(x proto.Message) {
			p := x.(*traits.Publication)
			p.MediaType = "scribbled"
			p.Audience.Name = "scribbled"
			if len(p.Body) > 0 {
				p.Body[0] = 'X'
			}
		},
		Create: func(x proto.Message) (proto.Message, error) {
			return m.CreatePublication(x.(*traits.Publication), WithNewVersion(), WithNewPublishTime(), WithResetReceipt())
		},
		Get: func(id string, mask *fieldmaskpb.FieldMask) proto.Message {
			p, _ := m.GetPublication(id, vtMask(mask)...)
			return p
		},
		Update: func(id string, x proto.Message) (proto.Message, error) {
			return m.UpdatePublication(id, x.(*traits.Publication), WithNewVersion(), WithNewPublishTime(), WithResetReceipt())
		},
		Delete: func(id string) (proto.Message, error) { return m.DeletePublication(id) },
		List: func(mask *fieldmaskpb.FieldMask) []proto.Message {
			var out []proto.Message
			for _, p := range m.ListPublications(vtMask(mask)...) {
				out = append(out, p)
			}
			return out
		},
		Sub: func(ctx context.Context) func() (proto.Message, proto.Message, bool) {
			ch := m.PullPublications(ctx)
			return func() (proto.Message, proto.Message, bool) {
				select {
				case c, ok := <-ch:
					if !ok {
						return nil, nil, false
					}
					return c.OldValue, c.NewValue, true
				default:
					return nil, nil, false
				}
			}
		},
	})
}
