//go:build verif

package metadatapb

import (
	"github.com/smart-core-os/sc-api/go/traits"
	"github.com/smart-core-os/sc-golang/internal/vt"
)

// Metadata snapshots never change because of later MergeMetadata / UpdateTraitMetadata calls.
func VT_C07_MetadataTraits() {
	m := NewModel()
	_, err := m.UpdateTraitMetadata(&traits.TraitMetadata{Name: "b", More: map[string]string{"k": "1"}})
	vt.Assert(err == nil, "first-update-succeeds")
	snap0, _ := m.GetMetadata()
	vt.Freeze(snap0, "get-metadata-snapshot")
	names := []string{"a", "b", "c"}
	r1, err := m.UpdateTraitMetadata(&traits.TraitMetadata{Name: names[vt.Choose("name", 3)], More: map[string]string{"k": "2"}})
	vt.Assert(err == nil, "second-update-succeeds")
	vt.Freeze(r1, "update-result")
	_, err = m.UpdateTraitMetadata(&traits.TraitMetadata{Name: names[vt.Choose("name2", 3)], More: map[string]string{"j": "3"}})
	vt.Assert(err == nil, "third-update-succeeds")
	vt.CheckFrozen()
	vt.Reach("done")
}
