//go:build verif

package bookingpb

import (
	"context"

	"google.golang.org/protobuf/proto"
	"google.golang.org/protobuf/types/known/fieldmaskpb"
	"google.golang.org/protobuf/types/known/timestamppb"

	"github.com/smart-core-os/sc-api/go/traits"
	"github.com/smart-core-os/sc-golang/internal/vt"
	"github.com/smart-core-os/sc-golang/internal/vth"
	"github.com/smart-core-os/sc-golang/pkg/resource"
)

func vtMask(mask *fieldmaskpb.FieldMask) []resource.ReadOption {
	if mask == nil {
		return nil
	}
	return []resource.ReadOption{resource.WithReadMask(mask)}
}

// Bookings (no Get or Delete on the model: reads go through ListBookings).
func VT_C07_BookingModel() {
	m := NewModel()
	vth.CollectionIsolation(vth.CollOps{
		New: func(v int, id string) proto.Message {
			return &traits.Booking{Id: id, Bookable: "room", Title: []string{"t1", "t2"}[v-1], OwnerName: "owner"}
		},
		ID:       func(x proto.Message) string { return x.(*traits.Booking).Id },
		Scribble: func(x proto.Message) { b := x.(*traits.Booking); b.Title = "scribbled"; b.OwnerName = "scribbled" },
		Create:   func(x proto.Message) (proto.Message, error) { return m.CreateBooking(x.(*traits.Booking)) },
		Get: func(id string, mask *fieldmaskpb.FieldMask) proto.Message {
			// the projection drops the id as well: take the single booking
			bs := m.ListBookings(vtMask(mask)...)
			if len(bs) != 1 {
				return nil
			}
			return bs[0]
		},
		Update: func(id string, x proto.Message) (proto.Message, error) { return m.UpdateBooking(x.(*traits.Booking)) },
		List: func(mask *fieldmaskpb.FieldMask) []proto.Message {
			var out []proto.Message
			for _, b := range m.ListBookings(vtMask(mask)...) {
				out = append(out, b)
			}
			return out
		},
		Sub: func(ctx context.Context) func() (proto.Message, proto.Message, bool) {
			ch := m.PullBookings(ctx)
			return func() (proto.Message, proto.Message, bool) {
				select {
				case c, ok := <-ch:
					if !ok {
						return nil, nil, false
					}
					return c.OldValue, c.NewValue, true
				default:
					return nil, nil, false
				}
			}
		},
	})
}

// Check-in / check-out through the BookingApi server with a caller-supplied time: the caller may modify or reuse its
// request (and the timestamp inside it) afterwards without affecting the stored bookings or messages read earlier.
func VT_C07_BookingServerCheckIn() {
	m := NewModel()
	srv := NewModelServer(m)
	ctx := context.Background()
	b1, err := m.CreateBooking(&traits.Booking{Id: "b1", Bookable: "room", Title: "t"})
	vt.Assert(err == nil, "create-succeeds")
	_ = b1
	checkOut := vt.Choose("checkOut", 2) == 1
	ts := &timestamppb.Timestamp{Seconds: 100, Nanos: 5}
	if checkOut {
		_, err = srv.CheckOutBooking(ctx, &traits.CheckOutBookingRequest{BookingId: "b1", Time: ts})
	} else {
		_, err = srv.CheckInBooking(ctx, &traits.CheckInBookingRequest{BookingId: "b1", Time: ts})
	}
	vt.Assert(err == nil, "check-in-succeeds")
	read := m.ListBookings()
	vt.Assert(len(read) == 1, "one-booking")
	if len(read) != 1 {
		return
	}
	readCopy := proto.Clone(read[0]).(*traits.Booking)
	vt.Freeze(read[0], "booking-read-after-check-in")
	// the caller reuses its timestamp
	ts.Seconds = 999
	ts.Nanos = 0
	vt.Assert(proto.Equal(read[0], readCopy), "earlier-read-unaffected-by-caller-modifying-its-request")
	again := m.ListBookings()
	if len(again) == 1 {
		vt.Assert(proto.Equal(again[0], readCopy), "store-unaffected-by-caller-modifying-its-request")
	}
	vt.CheckFrozen()
	vt.Reach("done")
}
