//go:build verif

package bookingpb

import (
	"context"

	"google.golang.org/protobuf/proto"
	"google.golang.org/protobuf/types/known/fieldmaskpb"

	"github.com/smart-core-os/sc-api/go/traits"
	"github.com/smart-core-os/sc-golang/internal/vth"
	"github.com/smart-core-os/sc-golang/pkg/resource"
)

func vtMask(mask *fieldmaskpb.FieldMask) []resource.ReadOption {
	if mask == nil {
		return nil
	}
	return []resource.ReadOption{resource.WithReadMask(mask)}
}

// Bookings (no Get or Delete on the model: reads go through ListBookings).
func VT_C07_BookingModel() {
	m := NewModel()
	vth.CollectionIsolation(vth.CollOps{
		New: func(v int, id string) proto.Message {
			return &traits.Booking{Id: id, Bookable: "room", Title: []string{"t1", "t2"}[v-1], OwnerName: "owner"}
		},
		ID:       func(x proto.Message) string { return x.(*traits.Booking).Id },
		Scribble: func(x proto.Message) { b := x.(*traits.Booking); b.Title = "scribbled"; b.OwnerName = "scribbled" },
		Create:   func(x proto.Message) (proto.Message, error) { return m.CreateBooking(x.(*traits.Booking)) },
		Get: func(id string, mask *fieldmaskpb.FieldMask) proto.Message {
			// the projection drops the id as well: take the single booking
			bs := m.ListBookings(vtMask(mask)...)
			if len(bs) != 1 {
				return nil
			}
			return bs[0]
		},
		Update: func(id string, x proto.Message) (proto.Message, error) { return m.UpdateBooking(x.(*traits.Booking)) },
		List: func(mask *fieldmaskpb.FieldMask) []proto.Message {
			var out []proto.Message
			for _, b := range m.ListBookings(vtMask(mask)...) {
				out = append(out, b)
			}
			return out
		},
		Sub: func(ctx context.Context) func() (proto.Message, proto.Message, bool) {
			ch := m.PullBookings(ctx)
			return func() (proto.Message, proto.Message, bool) {
				select {
				case c, ok := <-ch:
					if !ok {
						return nil, nil, false
					}
					return c.OldValue, c.NewValue, true
				default:
					return nil, nil, false
				}
			}
		},
	})
}
