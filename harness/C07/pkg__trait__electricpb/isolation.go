//go:build verif

package electricpb

import (
	"time"

	"google.golang.org/protobuf/proto"
	"google.golang.org/protobuf/types/known/timestamppb"

	"github.com/smart-core-os/sc-api/go/traits"
	"github.com/smart-core-os/sc-golang/internal/vt"
	"github.com/smart-core-os/sc-golang/pkg/resource"
	"github.com/smart-core-os/sc-golang/pkg/time/clock"
)

type vtClk7 struct{ now time.Time }

func (c *vtClk7) Now() time.Time                         { return c.now }
func (c *vtClk7) At(t time.Time) <-chan time.Time        { return nil }
func (c *vtClk7) After(d time.Duration) <-chan time.Time { return nil }
func (c *vtClk7) Every(d time.Duration) clock.Ticker     { return nil }

type vtSnap7 struct {
	m     proto.Message
	copy  proto.Message
	label string
}

var vtSnaps7 []vtSnap7

func vtKeep7(m proto.Message, label string) {
	vtSnaps7 = append(vtSnaps7, vtSnap7{m, proto.Clone(m), label})
	vt.Freeze(m, label)
}

func vtRecheck7(after string) {
	for _, s := range vtSnaps7 {
		vt.Assert(proto.Equal(s.m, s.copy), s.label+"-unchanged-after-"+after)
	}
	vt.CheckFrozen()
}

// Every mode message read from the model (Modes, FindMode, NormalMode, ActiveMode, results of writes) stays what it
// was across two later arbitrary mode operations; the stored modes are only changed by writes to them.
func VT_C07_ElectricModes() {
	vtSnaps7 = nil
	id0, id1 := "0000000000000010", "0000000000000020"
	clk := &vtClk7{now: vt.Time("now")}
	active := &traits.ElectricMode{}
	switch vt.Choose("active", 3) {
	case 1:
		active = &traits.ElectricMode{Id: id0, Title: "t0", Normal: true, StartTime: timestamppb.New(vt.Time("activeSince"))}
	case 2:
		active = &traits.ElectricMode{Id: id1, Title: "t1", StartTime: timestamppb.New(vt.Time("activeSince"))}
	}
	m := &Model{
		modes: resource.NewCollection(
			resource.WithInitialRecord(id0, &traits.ElectricMode{Id: id0, Title: "t0", Normal: true}),
			resource.WithInitialRecord(id1, &traits.ElectricMode{Id: id1, Title: "t1"})),
		activeMode: resource.NewValue(resource.WithInitialValue(active)),
		demand:     resource.NewValue(resource.WithInitialValue(&traits.ElectricDemand{})),
		clock:      clk,
	}
	for i, md := range m.Modes() {
		vtKeep7(md, []string{"modes[0]", "modes[1]"}[i])
	}
	if f, ok := m.FindMode(id0); ok {
		vtKeep7(f, "find-mode")
	}
	if n, ok := m.NormalMode(); ok {
		vtKeep7(n, "normal-mode")
	}
	vtKeep7(m.ActiveMode(), "active-mode")
	stored0 := proto.Clone(m.modes.List()[0])
	stored1 := proto.Clone(m.modes.List()[1])
	wrote0, wrote1 := false, false
	for step := 0; step < 2; step++ {
		name := []string{"op1", "op2"}[step]
		switch vt.Choose(name, 5) {
		case 0:
			if got, err := m.ChangeActiveMode(id0); err == nil {
				vtKeep7(got, name+"-change-active-result")
			}
		case 1:
			if got, err := m.ChangeActiveMode(id1); err == nil {
				vtKeep7(got, name+"-change-active-result")
			}
		case 2:
			if got, err := m.ChangeToNormalMode(); err == nil {
				vtKeep7(got, name+"-clear-active-result")
			}
		case 3:
			w := &traits.ElectricMode{Id: id1, Title: "u"}
			if got, err := m.UpdateMode(w); err == nil {
				vtKeep7(got, name+"-update-result")
				wrote1 = true
			}
			w.Title = "caller-modifies-the-written-message"
		case 4:
			w := &traits.ElectricMode{Id: id0, Title: "s"}
			if err := m.SetActiveMode(w); err == nil {
				w.Title = "caller-modifies-the-written-message"
				vt.Assert(m.ActiveMode().Title == "s", "store-unaffected-by-caller-modifying-written-message")
			}
		}
		vtRecheck7(name)
		list := m.modes.List()
		if !wrote0 {
			vt.Assert(proto.Equal(list[0], stored0), "stored-mode-0-only-changed-by-writes-to-it")
		}
		if !wrote1 {
			vt.Assert(proto.Equal(list[1], stored1), "stored-mode-1-only-changed-by-writes-to-it")
		}
	}
	vt.Reach("done")
}
