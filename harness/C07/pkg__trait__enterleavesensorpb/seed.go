//go:build verif

package enterleavesensorpb

import (
	"context"

	"google.golang.org/protobuf/proto"

	"github.com/smart-core-os/sc-api/go/traits"
	"github.com/smart-core-os/sc-golang/internal/vt"
)

// Subscribing (Pull and its seed) is a read-only operation: the stored event is exactly what it was.
func VT_C07_EnterLeavePullSeed() {
	one := int32(1)
	m := NewModel(WithInitialEnterLeaveEvent(&traits.EnterLeaveEvent{
		Direction: traits.EnterLeaveEvent_ENTER, Occupant: &traits.EnterLeaveEvent_Occupant{Name: "someone"}, EnterTotal: &one,
	}))
	before, _ := m.GetEnterLeaveEvent()
	snap := proto.Clone(before)
	vt.Freeze(before, "get-result")
	ctx, cancel := context.WithCancel(context.Background())
	var opts []interface{}
	_ = opts
	ch := m.PullEnterLeaveEvents(ctx)
	seed := <-ch
	vt.Assert(seed.Value.Occupant == nil, "seed-event-does-not-replay-the-occupant")
	after, _ := m.GetEnterLeaveEvent()
	vt.Assert(proto.Equal(after, snap), "pull-seed-leaves-stored-state-unchanged")
	cancel()
	vt.CheckFrozen()
	vt.Reach("done")
}
