//go:build verif

package vendingpb

import (
	"context"

	"google.golang.org/protobuf/proto"
	"google.golang.org/protobuf/types/known/fieldmaskpb"

	"github.com/smart-core-os/sc-api/go/traits"
	"github.com/smart-core-os/sc-golang/internal/vth"
	"github.com/smart-core-os/sc-golang/pkg/resource"
)

func vtMask(mask *fieldmaskpb.FieldMask) []resource.ReadOption {
	if mask == nil {
		return nil
	}
	return []resource.ReadOption{resource.WithReadMask(mask)}
}

// Consumables.
func VT_C07_ConsumableModel() {
	m := NewModel()
	vth.CollectionIsolation(vth.CollOps{
		New: func(v int, id string) proto.Message {
			if id == "" {
				id = "cola"
			}
			return &traits.Consumable{Name: id, Title: []string{"t1", "t2"}[v-1], DefaultPortion: &traits.Consumable_Quantity{Amount: 1, Unit: traits.Consumable_LITER},
				AvailablePortions: []*traits.Consumable_Portion{{Unit: traits.Consumable_LITER, Step: 1}}}
		},
		ID: func(x proto.Message) string { return x.(*traits.Consumable).Name },
		Scribble: func(x proto.Message) {
			c := x.(*traits.Consumable)
			c.Title = "scribbled"
			c.DefaultPortion.Amount = 99
			c.AvailablePortions[0].Step = 99
		},
		Create: func(x proto.Message) (proto.Message, error) { return m.CreateConsumable(x.(*traits.Consumable)) },
		Get: func(id string, mask *fieldmaskpb.FieldMask) proto.Message {
			c, _ := m.GetConsumable(id, vtMask(mask)...)
			return c
		},
		Update: func(id string, x proto.Message) (proto.Message, error) { return m.UpdateConsumable(x.(*traits.Consumable)) },
		Delete: func(id string) (proto.Message, error) { return m.DeleteConsumable(id) },
		List: func(mask *fieldmaskpb.FieldMask) []proto.Message {
			var out []proto.Message
			for _, c := range m.ListConsumables(vtMask(mask)...) {
				out = append(out, c)
			}
			return out
		},
		Sub: func(ctx context.Context) func() (proto.Message, proto.Message, bool) {
			ch := m.PullConsumables(ctx)
			return func() (proto.Message, proto.Message, bool) {
				select {
				case c, ok := <-ch:
					if !ok {
						return nil, nil, false
					}
					return c.OldValue, c.NewValue, true
				default:
					return nil, nil, false
				}
			}
		},
	})
}

// Stock records (incl. a dispense, which rewrites used and remaining).
func VT_C07_StockModel() {
	m := NewModel()
	vth.CollectionIsolation(vth.CollOps{
		New: func(v int, id string) proto.Message {
			if id == "" {
				id = "cola"
			}
			return &traits.Consumable_Stock{Consumable: id, Remaining: &traits.Consumable_Quantity{Amount: float32(10 * v), Unit: traits.Consumable_LITER},
				Used: &traits.Consumable_Quantity{Amount: 1, Unit: traits.Consumable_LITER}}
		},
		ID: func(x proto.Message) string { return x.(*traits.Consumable_Stock).Consumable },
		Scribble: func(x proto.Message) {
			s := x.(*traits.Consumable_Stock)
			s.Remaining.Amount = 99
			s.Used.Amount = 99
		},
		Create: func(x proto.Message) (proto.Message, error) { return m.CreateStock(x.(*traits.Consumable_Stock)) },
		Get: func(id string, mask *fieldmaskpb.FieldMask) proto.Message {
			s, _ := m.GetStock(id, vtMask(mask)...)
			return s
		},
		Update: func(id string, x proto.Message) (proto.Message, error) {
			if _, err := m.DispenseInstantly(id, &traits.Consumable_Quantity{Amount: 2, Unit: traits.Consumable_LITER}); err != nil {
				return nil, err
			}
			return m.UpdateStock(x.(*traits.Consumable_Stock))
		},
		Delete: func(id string) (proto.Message, error) { return m.DeleteStock(id) },
		List: func(mask *fieldmaskpb.FieldMask) []proto.Message {
			var out []proto.Message
			for _, s := range m.ListInventory(vtMask(mask)...) {
				out = append(out, s)
			}
			return out
		},
		Sub: func(ctx context.Context) func() (proto.Message, proto.Message, bool) {
			ch := m.PullInventory(ctx)
			return func() (proto.Message, proto.Message, bool) {
				select {
				case c, ok := <-ch:
					if !ok {
						return nil, nil, false
					}
					return c.OldValue, c.NewValue, true
				default:
					return nil, nil, false
				}
			}
		},
	})
}
