//go:build verif

package resource

import (
	"google.golang.org/protobuf/proto"

	"github.com/smart-core-os/sc-golang/internal/testproto"
	"github.com/smart-core-os/sc-golang/internal/vt"
	"github.com/smart-core-os/sc-golang/internal/vth"
)

type T7 = testproto.TestAllTypes

// vtT7: isolation is a property of object identity, not of scalar values: one symbolic scalar, the structure
// (nested message / repeated message present or not) by case split, other scalars fixed and non-zero.
func vtT7(name string) *T7 {
	m := &T7{DefaultInt32: vt.Int32(name + ".i32")}
	if vt.Choose(name+".hasForeign", 2) == 1 {
		m.DefaultForeignMessage = &testproto.ForeignMessage{C: 5, D: 6}
	}
	if vt.Choose(name+".hasRep", 2) == 1 {
		m.RepeatedForeignMessage = []*testproto.ForeignMessage{{C: 7}}
	}
	return m
}

var _ = vth.Mask

func vtScribble(m *T7) {
	m.DefaultInt32++
	if m.DefaultForeignMessage != nil {
		m.DefaultForeignMessage.C++
		m.DefaultForeignMessage.D++
	}
	for _, r := range m.RepeatedForeignMessage {
		r.C++
	}
	m.RepeatedForeignMessage = append(m.RepeatedForeignMessage, &testproto.ForeignMessage{C: 99})
}

// Value: the caller may modify a written message afterwards without affecting the store; results of reads and writes
// never change because of later writes or reads.
func VT_C07_Value() {
	v := NewValue(WithInitialValue(vtT7("init")))
	g0 := v.Get()
	vt.Freeze(g0, "first-get")
	w1 := vtT7("w1")
	var opts []WriteOption
	if vt.Choose("mask", 2) == 1 {
		opts = append(opts, WithUpdatePaths("default_foreign_message", "repeated_foreign_message"))
	}
	r1, err := v.Set(w1, opts...)
	vt.Assert(err == nil, "set-succeeds")
	vt.Freeze(r1, "set-result")
	snap := proto.Clone(r1)
	vtScribble(w1) // the caller re-uses its message
	vt.Assert(proto.Equal(v.Get(), snap), "store-unaffected-by-caller-modifying-written-message")
	// reads with and without mask leave the store alone
	_ = v.Get(WithReadPaths(&T7{}, "default_int32"))
	_ = v.Get(WithReadMask(vth.Mask("default_foreign_message.c", "repeated_foreign_message.c"))) // nested paths
	_ = v.Get(WithReadMask(vth.Mask("default_foreign_message")))
	_ = v.Get()
	vt.Assert(proto.Equal(v.Get(), snap), "reads-leave-stored-state-unchanged")
	// a later write must not change what was handed out before
	r2, err := v.Set(vtT7("w2"), opts...)
	vt.Assert(err == nil, "second-set-succeeds")
	vt.Freeze(r2, "second-set-result")
	_, _ = v.Set(vtT7("w3"))
	vt.CheckFrozen()
	vt.Reach("done")
}

// Collection: same, plus List results.
func VT_C07_Collection() {
	c := NewCollection(WithInitialRecord("a", vtT7("a")))
	list0 := c.List()
	for _, m := range list0 {
		vt.Freeze(m, "list-result")
	}
	w1 := vtT7("w1")
	var opts []WriteOption
	if vt.Choose("mask", 2) == 1 {
		opts = append(opts, WithUpdatePaths("default_foreign_message", "repeated_foreign_message"))
	}
	r1, err := c.Update("a", w1, opts...)
	vt.Assert(err == nil, "update-succeeds")
	vt.Freeze(r1, "update-result")
	snap := proto.Clone(r1)
	vtScribble(w1)
	got, _ := c.Get("a")
	vt.Assert(proto.Equal(got, snap), "store-unaffected-by-caller-modifying-written-message")
	wb := vtT7("wb")
	rb, err := c.Add("b", wb)
	vt.Assert(err == nil, "add-succeeds")
	vt.Freeze(rb, "add-result")
	snapB := proto.Clone(rb)
	vtScribble(wb)
	gb, _ := c.Get("b")
	vt.Assert(proto.Equal(gb, snapB), "store-unaffected-by-caller-modifying-added-message")
	_ = c.List(WithReadPaths(&T7{}, "default_int32"))
	_ = c.List(WithReadMask(vth.Mask("default_foreign_message.c", "repeated_foreign_message.c"))) // nested paths
	_, _ = c.Get("b", WithReadMask(vth.Mask("default_foreign_message.d")))
	gb2, _ := c.Get("b")
	vt.Assert(proto.Equal(gb2, snapB), "masked-reads-leave-stored-state-unchanged")
	old, err := c.Delete("a")
	vt.Assert(err == nil, "delete-succeeds")
	vt.Freeze(old, "delete-result")
	_, _ = c.Update("b", vtT7("w3"))
	vt.CheckFrozen()
	vt.Reach("done")
}
