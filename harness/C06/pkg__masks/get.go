//go:build verif

package masks

import (
	"google.golang.org/grpc/codes"
	"google.golang.org/grpc/status"
	"google.golang.org/protobuf/proto"
	"google.golang.org/protobuf/types/known/fieldmaskpb"

	"github.com/smart-core-os/sc-api/go/traits"
	"github.com/smart-core-os/sc-golang/internal/testproto"
	"github.com/smart-core-os/sc-golang/internal/vt"
	"github.com/smart-core-os/sc-golang/internal/vth"
)

type RM = fieldmaskpb.FieldMask

var readMasks = []*RM{nil, vth.Mask(), vth.Mask("default_int32"), vth.Mask("optional_int32", "default_string"),
	vth.Mask("default_foreign_message"), vth.Mask("default_foreign_message.c"), vth.Mask("default_foreign_message.c", "default_int64"),
	vth.Mask("default_foreign_message", "default_foreign_message.d"), vth.Mask("repeated_int32"), vth.Mask("repeated_foreign_message.c"),
	vth.Mask("map_string_string"), vth.Mask("oneof_default_int32"), vth.Mask("oneof_default_nested_message.a")}

func keep(mask *RM, p string) bool { return mask == nil || vth.Covers(mask, p) }

func vtMsg(name string) *testproto.TestAllTypes {
	m := &testproto.TestAllTypes{}
	vth.Scalars(m, name)
	vth.Foreign(m, name)
	return m
}

func optEq6(a, b *int32) bool {
	if a == nil || b == nil {
		return a == nil && b == nil
	}
	return *a == *b
}

// projection of the scalar + nested groups, leaf by leaf
func vtCheckProjection(got, orig *testproto.TestAllTypes, mask *RM) {
	if keep(mask, "default_int32") {
		vt.Assert(got.DefaultInt32 == orig.DefaultInt32, "selected-scalar-kept")
	} else {
		vt.Assert(got.DefaultInt32 == 0, "unselected-scalar-absent")
	}
	if keep(mask, "default_string") {
		vt.Assert(got.DefaultString == orig.DefaultString, "selected-string-kept")
	} else {
		vt.Assert(got.DefaultString == "", "unselected-string-absent")
	}
	if keep(mask, "default_int64") {
		vt.Assert(got.DefaultInt64 == orig.DefaultInt64, "selected-int64-kept")
	} else {
		vt.Assert(got.DefaultInt64 == 0, "unselected-int64-absent")
	}
	if keep(mask, "optional_int32") {
		vt.Assert(optEq6(got.OptionalInt32, orig.OptionalInt32), "selected-optional-kept-with-presence")
	} else {
		vt.Assert(got.OptionalInt32 == nil, "unselected-optional-absent")
	}
	if keep(mask, "default_foreign_message.c") {
		vt.Assert(got.GetDefaultForeignMessage().GetC() == orig.GetDefaultForeignMessage().GetC(), "selected-nested-leaf-kept")
	} else {
		vt.Assert(got.GetDefaultForeignMessage().GetC() == 0, "unselected-nested-leaf-absent")
	}
	if keep(mask, "default_foreign_message.d") {
		vt.Assert(got.GetDefaultForeignMessage().GetD() == orig.GetDefaultForeignMessage().GetD(), "selected-nested-leaf-kept")
	} else {
		vt.Assert(got.GetDefaultForeignMessage().GetD() == 0, "unselected-nested-leaf-absent")
	}
	if keep(mask, "default_foreign_message") {
		vt.Assert((got.DefaultForeignMessage == nil) == (orig.DefaultForeignMessage == nil), "selected-message-presence-kept")
	}
	if orig.DefaultForeignMessage == nil {
		vt.Assert(got.DefaultForeignMessage == nil, "absent-message-stays-absent")
	}
}

// FilterClone returns exactly the projection, never alters its argument, and shares nothing mutable with it.
func VT_C06_FilterClone() {
	orig := vtMsg("m")
	before := proto.Clone(orig).(*testproto.TestAllTypes)
	mask, _ := vth.PickMask("mask", readMasks)
	f := NewResponseFilter(WithFieldMask(mask))
	gotM := f.FilterClone(orig)
	got := gotM.(*testproto.TestAllTypes)
	vtCheckProjection(got, before, mask)
	vt.Assert(proto.Equal(orig, before), "filter-clone-does-not-alter-its-argument")
	if mask != nil {
		vt.Assert(got != orig, "filter-clone-with-mask-returns-a-new-message")
		// scribble over the result: the argument must not notice
		got.DefaultInt32++
		if got.DefaultForeignMessage != nil {
			got.DefaultForeignMessage.C++
			got.DefaultForeignMessage.D++
		}
		if got.OptionalInt32 != nil {
			*got.OptionalInt32++
		}
		vt.Assert(proto.Equal(orig, before), "filter-clone-result-shares-nothing-with-argument")
	}
	vt.Reach("done")
}

// Filter (in place) leaves exactly the projection.
func VT_C06_Filter() {
	orig := vtMsg("m")
	before := proto.Clone(orig).(*testproto.TestAllTypes)
	mask, _ := vth.PickMask("mask", readMasks)
	NewResponseFilter(WithFieldMask(mask)).Filter(orig)
	vtCheckProjection(orig, before, mask)
	vt.Reach("done")
}

// composite groups: repeated, map, oneof
func VT_C06_FilterComposite() {
	orig := &testproto.TestAllTypes{}
	vth.Repeated(orig, "m")
	vth.Map(orig, "m")
	vth.Oneof(orig, "m")
	orig.DefaultInt32 = vt.Int32("m.i32")
	before := proto.Clone(orig).(*testproto.TestAllTypes)
	mask, _ := vth.PickMask("mask", readMasks)
	got := NewResponseFilter(WithFieldMask(mask)).FilterClone(orig).(*testproto.TestAllTypes)
	vt.Assert(proto.Equal(orig, before), "filter-clone-does-not-alter-its-argument")
	if keep(mask, "repeated_int32") {
		vt.Assert(len(got.RepeatedInt32) == len(before.RepeatedInt32), "selected-list-kept")
		for i := range got.RepeatedInt32 {
			if i < len(before.RepeatedInt32) {
				vt.Assert(got.RepeatedInt32[i] == before.RepeatedInt32[i], "selected-list-elements-kept")
			}
		}
	} else {
		vt.Assert(len(got.RepeatedInt32) == 0, "unselected-list-absent")
	}
	if keep(mask, "repeated_foreign_message") {
		vt.Assert(len(got.RepeatedForeignMessage) == len(before.RepeatedForeignMessage), "selected-message-list-kept")
		for i := range got.RepeatedForeignMessage {
			if i < len(before.RepeatedForeignMessage) {
				vt.Assert(proto.Equal(got.RepeatedForeignMessage[i], before.RepeatedForeignMessage[i]), "selected-message-list-elements-kept")
			}
		}
	} else if vth.Has(mask, "repeated_foreign_message.c") {
		// a path through a repeated message selects that leaf in every element
		vt.Assert(len(got.RepeatedForeignMessage) == len(before.RepeatedForeignMessage), "sub-path-through-list-keeps-elements")
		for i := range got.RepeatedForeignMessage {
			if i < len(before.RepeatedForeignMessage) {
				vt.Assert(vt.And(got.RepeatedForeignMessage[i].C == before.RepeatedForeignMessage[i].C, got.RepeatedForeignMessage[i].D == 0), "sub-path-through-list-projects-elements")
			}
		}
	} else {
		vt.Assert(len(got.RepeatedForeignMessage) == 0, "unselected-message-list-absent")
	}
	if keep(mask, "map_string_string") {
		vt.Assert(len(got.MapStringString) == len(before.MapStringString), "selected-map-kept")
		for k, v := range before.MapStringString {
			vt.Assert(got.MapStringString[k] == v, "selected-map-entries-kept")
		}
	} else {
		vt.Assert(len(got.MapStringString) == 0, "unselected-map-absent")
	}
	_, hadInt := before.OneofDefault.(*testproto.TestAllTypes_OneofDefaultInt32)
	if keep(mask, "oneof_default_int32") {
		vt.Assert(got.GetOneofDefaultInt32() == before.GetOneofDefaultInt32(), "selected-oneof-scalar-kept")
	} else if hadInt {
		vt.Assert(got.OneofDefault == nil, "unselected-oneof-scalar-absent")
	}
	if keep(mask, "oneof_default_nested_message.a") {
		vt.Assert(got.GetOneofDefaultNestedMessage().GetA() == before.GetOneofDefaultNestedMessage().GetA(), "selected-oneof-message-leaf-kept")
	} else {
		vt.Assert(got.GetOneofDefaultNestedMessage().GetA() == 0, "unselected-oneof-message-leaf-absent")
	}
	if keep(mask, "default_int32") {
		vt.Assert(got.DefaultInt32 == before.DefaultInt32, "selected-scalar-kept")
	} else {
		vt.Assert(got.DefaultInt32 == 0, "unselected-scalar-absent")
	}
	vt.Reach("done")
}

var corruptMasks = []*RM{vth.Mask("bogus"), vth.Mask("default_int32.x"), vth.Mask("repeated_int32.x"), vth.Mask("map_string_string.x"),
	vth.Mask("default_foreign_message.bogus"), vth.Mask(""), vth.Mask("default_int32", "bogus")}

// Corrupted masks are reported invalid by Validate and never make a read panic.
func VT_C06_CorruptMasks() {
	orig := &testproto.TestAllTypes{DefaultInt32: vt.Int32("i32"), DefaultForeignMessage: &testproto.ForeignMessage{C: vt.Int32("c")},
		RepeatedInt32: []int32{vt.Int32("r0")}, MapStringString: map[string]string{"k": "v"}}
	before := proto.Clone(orig)
	mask, _ := vth.PickMask("mask", corruptMasks)
	f := NewResponseFilter(WithFieldMask(mask))
	err := f.Validate(orig)
	vt.Assert(status.Code(err) == codes.InvalidArgument, "corrupt-mask-reported-invalid")
	var projected proto.Message
	panicked, _ := vt.Try(func() { projected = f.FilterClone(orig) })
	vt.Assert(!panicked, "corrupt-mask-never-panics-filter-clone")
	if !panicked && len(mask.Paths) == 1 {
		// the single path selects no field of the message: the projection is empty, never the whole value
		vt.Assert(proto.Equal(projected, &testproto.TestAllTypes{}), "mask-selecting-no-field-projects-to-nothing")
	}
	vt.Assert(proto.Equal(orig, before), "corrupt-mask-read-does-not-alter-message")
	c := proto.Clone(orig)
	panicked2, _ := vt.Try(func() { f.Filter(c) })
	vt.Assert(!panicked2, "corrupt-mask-never-panics-filter")
	vt.Reach("done")
}

// Sibling fields whose names are textual prefixes of each other (preset / preset_index) are independent mask paths.
func VT_C06_SiblingPrefixFields() {
	orig := &traits.FanSpeed{Preset: vt.StrOrd("preset"), PresetIndex: vt.Int32("index"), Percentage: 40}
	before := proto.Clone(orig).(*traits.FanSpeed)
	masks := []*RM{vth.Mask("preset", "preset_index"), vth.Mask("preset_index", "preset"), vth.Mask("preset"), vth.Mask("preset_index"), vth.Mask("percentage", "preset_index")}
	mask, _ := vth.PickMask("mask", masks)
	got := NewResponseFilter(WithFieldMask(mask)).FilterClone(orig).(*traits.FanSpeed)
	if keep(mask, "preset") {
		vt.Assert(got.Preset == before.Preset, "selected-field-kept")
	} else {
		vt.Assert(got.Preset == "", "unselected-field-absent")
	}
	if keep(mask, "preset_index") {
		vt.Assert(got.PresetIndex == before.PresetIndex, "selected-sibling-with-longer-name-kept")
	} else {
		vt.Assert(got.PresetIndex == 0, "unselected-sibling-absent")
	}
	if keep(mask, "percentage") {
		vt.Assert(got.Percentage == before.Percentage, "selected-field-kept")
	} else {
		vt.Assert(got.Percentage == 0, "unselected-field-absent")
	}
	vt.Assert(proto.Equal(orig, before), "filter-clone-does-not-alter-its-argument")
	vt.Reach("done")
}
