//go:build verif

package resource

import (
	"context"

	"google.golang.org/protobuf/proto"
	"google.golang.org/protobuf/types/known/fieldmaskpb"

	"github.com/smart-core-os/sc-api/go/types"
	"github.com/smart-core-os/sc-golang/internal/testproto"
	"github.com/smart-core-os/sc-golang/internal/vt"
	"github.com/smart-core-os/sc-golang/internal/vth"
)

type T6 = testproto.TestAllTypes

var vtReadMasks6 = []*fieldmaskpb.FieldMask{nil, vth.Mask(), vth.Mask("default_int32"), vth.Mask("default_foreign_message.c"),
	vth.Mask("default_foreign_message", "default_int64")}

func vtT6(name string) *T6 {
	m := &T6{DefaultInt32: vt.Int32(name + ".i32"), DefaultInt64: vt.Int64(name + ".i64")}
	vth.Foreign(m, name)
	return m
}

func vtKeep6(mask *fieldmaskpb.FieldMask, p string) bool { return mask == nil || vth.Covers(mask, p) }

// vtProjected6: got is precisely orig's fields selected by mask (independent leaf-by-leaf projection).
func vtProjected6(got proto.Message, orig *T6, mask *fieldmaskpb.FieldMask, label string) {
	g, ok := got.(*T6)
	vt.Assert(vt.And(ok, g != nil), label+":read-returns-a-message")
	if !ok || g == nil {
		return
	}
	want := &T6{}
	if vtKeep6(mask, "default_int32") {
		want.DefaultInt32 = orig.DefaultInt32
	}
	if vtKeep6(mask, "default_int64") {
		want.DefaultInt64 = orig.DefaultInt64
	}
	if orig.DefaultForeignMessage != nil && (vtKeep6(mask, "default_foreign_message") || vth.Touches(mask, "default_foreign_message")) {
		f := &testproto.ForeignMessage{}
		if vtKeep6(mask, "default_foreign_message.c") {
			f.C = orig.DefaultForeignMessage.C
		}
		if vtKeep6(mask, "default_foreign_message.d") {
			f.D = orig.DefaultForeignMessage.D
		}
		want.DefaultForeignMessage = f
	}
	vt.Assert(g.DefaultInt32 == want.DefaultInt32, label+":scalar-projection")
	vt.Assert(g.DefaultInt64 == want.DefaultInt64, label+":int64-projection")
	vt.Assert(g.GetDefaultForeignMessage().GetC() == want.GetDefaultForeignMessage().GetC(), label+":nested-leaf-c-projection")
	vt.Assert(g.GetDefaultForeignMessage().GetD() == want.GetDefaultForeignMessage().GetD(), label+":nested-leaf-d-projection")
	if vtKeep6(mask, "default_foreign_message") || orig.DefaultForeignMessage == nil {
		vt.Assert((g.DefaultForeignMessage == nil) == (orig.DefaultForeignMessage == nil), label+":message-presence-projection")
	}
}

// Value.Get and Value.Pull (seed and update) with a read mask return the projection and never alter the stored value.
func VT_C06_ValueReads() {
	mask, _ := vth.PickMask("mask", vtReadMasks6)
	init := vtT6("init")
	initCopy := proto.Clone(init).(*T6)
	v := NewValue(WithInitialValue(init))
	var ropts []ReadOption
	if mask != nil {
		ropts = append(ropts, WithReadMask(mask))
	}
	vtProjected6(v.Get(ropts...), initCopy, mask, "get")
	vt.Assert(proto.Equal(v.value, initCopy), "get-does-not-alter-stored-value")
	ctx, cancel := context.WithCancel(context.Background())
	ch := v.Pull(ctx, append(ropts, WithBackpressure(true))...)
	seed := <-ch
	vtProjected6(seed.Value, initCopy, mask, "pull-seed")
	vt.Assert(proto.Equal(v.value, initCopy), "pull-seed-does-not-alter-stored-value")
	w := vtT6("w")
	wCopy := proto.Clone(w).(*T6)
	done := make(chan struct{})
	var ev *ValueChange
	go func() {
		ev = <-ch
		close(done)
	}()
	_, err := v.Set(w)
	vt.Assert(err == nil, "set-succeeds")
	<-done
	cancel()
	vtProjected6(ev.Value, wCopy, mask, "pull-update")
	vt.Assert(proto.Equal(v.value, wCopy), "pull-update-does-not-alter-stored-value")
	vt.Assert(proto.Equal(w, wCopy), "write-does-not-alter-written-message")
	vt.Reach("done")
}

// Collection.Get, List, Pull (seed, UPDATE old/new, REMOVE old, ADD new) and PullID with a read mask.
func VT_C06_CollectionReads() {
	mask, _ := vth.PickMask("mask", vtReadMasks6)
	id := "0000000000000001"
	init := vtT6("init")
	initCopy := proto.Clone(init).(*T6)
	c := NewCollection(WithInitialRecord(id, init))
	var ropts []ReadOption
	if mask != nil {
		ropts = append(ropts, WithReadMask(mask))
	}
	got, ok := c.Get(id, ropts...)
	vt.Assert(ok, "get-finds-item")
	vtProjected6(got, initCopy, mask, "get")
	list := c.List(ropts...)
	vt.Assert(len(list) == 1, "list-length")
	if len(list) == 1 {
		vtProjected6(list[0], initCopy, mask, "list")
	}
	vt.Assert(proto.Equal(c.byId[id].body, initCopy), "get-list-do-not-alter-stored-value")

	ctx, cancel := context.WithCancel(context.Background())
	ch := c.Pull(ctx, append(ropts, WithBackpressure(true))...)
	seed := <-ch
	vtProjected6(seed.NewValue, initCopy, mask, "pull-seed")
	var events []*CollectionChange
	next := make(chan struct{}, 4)
	fin := make(chan struct{})
	go func() {
		defer close(fin)
		for e := range ch {
			events = append(events, e)
			select {
			case next <- struct{}{}:
			case <-ctx.Done():
			}
		}
	}()
	w := vtT6("w")
	wCopy := proto.Clone(w).(*T6)
	kind := vt.Choose("kind", 2)
	if kind == 0 {
		_, err := c.Update(id, w)
		vt.Assert(err == nil, "update-succeeds")
		<-next
		_, err = c.Delete(id)
		vt.Assert(err == nil, "delete-succeeds")
		<-next
	} else {
		_, err := c.Delete(id)
		vt.Assert(err == nil, "delete-succeeds")
		<-next
		_, err = c.Add(id, w)
		vt.Assert(err == nil, "add-succeeds")
		<-next
	}
	cancel()
	<-fin
	vt.Assert(len(events) == 2, "two-events")
	if len(events) != 2 {
		return
	}
	if kind == 0 {
		vt.Assert(events[0].ChangeType == types.ChangeType_UPDATE, "update-event")
		vtProjected6(events[0].OldValue, initCopy, mask, "pull-update-old")
		vtProjected6(events[0].NewValue, wCopy, mask, "pull-update-new")
		vt.Assert(events[1].ChangeType == types.ChangeType_REMOVE, "remove-event")
		vtProjected6(events[1].OldValue, wCopy, mask, "pull-remove-old")
	} else {
		vt.Assert(events[0].ChangeType == types.ChangeType_REMOVE, "remove-event")
		vtProjected6(events[0].OldValue, initCopy, mask, "pull-remove-old")
		vt.Assert(events[1].ChangeType == types.ChangeType_ADD, "add-event")
		vtProjected6(events[1].NewValue, wCopy, mask, "pull-add-new")
		vt.Assert(proto.Equal(c.byId[id].body, wCopy), "pull-does-not-alter-stored-value")
	}
	vt.Assert(proto.Equal(init, initCopy), "reads-do-not-alter-the-initial-message")
	vt.Reach("done")
}

// Collection.PullID with a read mask: seed and update are projected.
func VT_C06_PullIDReads() {
	mask, _ := vth.PickMask("mask", vtReadMasks6)
	id := "0000000000000001"
	init := vtT6("init")
	initCopy := proto.Clone(init).(*T6)
	c := NewCollection(WithInitialRecord(id, init))
	var ropts []ReadOption
	if mask != nil {
		ropts = append(ropts, WithReadMask(mask))
	}
	ctx, cancel := context.WithCancel(context.Background())
	ch := c.PullID(ctx, id, append(ropts, WithBackpressure(true))...)
	seed := <-ch
	vtProjected6(seed.Value, initCopy, mask, "pullid-seed")
	w := vtT6("w")
	wCopy := proto.Clone(w).(*T6)
	done := make(chan struct{})
	var ev *ValueChange
	go func() {
		ev = <-ch
		close(done)
	}()
	_, err := c.Update(id, w)
	vt.Assert(err == nil, "update-succeeds")
	<-done
	cancel()
	vtProjected6(ev.Value, wCopy, mask, "pullid-update")
	vt.Assert(proto.Equal(c.byId[id].body, wCopy), "pullid-does-not-alter-stored-value")
	vt.Reach("done")
}

// Two backpressured subscribers of one collection with different read masks (none / default_int32, in either
// registration order) and an update: each receives its own projection of the old and the new value.
func VT_C06_TwoSubscribersDifferentMasks() {
	id := "0000000000000001"
	init := &T6{DefaultInt32: vt.Int32("init.i32"), DefaultInt64: 7}
	initCopy := proto.Clone(init).(*T6)
	c := NewCollection(WithInitialRecord(id, init))
	pairs := [][2]*fieldmaskpb.FieldMask{{nil, vth.Mask("default_int32")}, {vth.Mask("default_int32"), nil}}
	pair := pairs[vt.Choose("masks", len(pairs))]
	ctx, cancel := context.WithCancel(context.Background())
	events := make([][]*CollectionChange, 2)
	fins := []chan struct{}{make(chan struct{}), make(chan struct{})}
	for i := 0; i < 2; i++ {
		i := i
		ropts := []ReadOption{WithBackpressure(true), WithUpdatesOnly(true)}
		if pair[i] != nil {
			ropts = append(ropts, WithReadMask(pair[i]))
		}
		ch := c.Pull(ctx, ropts...)
		go func() {
			defer close(fins[i])
			for e := range ch {
				events[i] = append(events[i], e)
			}
		}()
	}
	w := &T6{DefaultInt32: vt.Int32("w.i32"), DefaultInt64: 9}
	wCopy := proto.Clone(w).(*T6)
	_, err := c.Update(id, w)
	vt.Assert(err == nil, "update-succeeds")
	vt.Settle()
	cancel()
	<-fins[0]
	<-fins[1]
	for i := 0; i < 2; i++ {
		vt.Assert(len(events[i]) == 1, "each-subscriber-gets-the-event")
		if len(events[i]) != 1 {
			continue
		}
		vtProjected6(events[i][0].OldValue, initCopy, pair[i], "own-projection-of-update-old")
		vtProjected6(events[i][0].NewValue, wCopy, pair[i], "own-projection-of-update-new")
	}
	vt.Reach("done")
}
