//go:build verif

// Package vth holds helpers shared by the verification harnesses: builders of symbolic messages
// of the all-field-kinds test message restricted to the universe of DESIGN.md section 4.
package vth

import (
	"context"

	"google.golang.org/protobuf/proto"
	"google.golang.org/protobuf/types/known/fieldmaskpb"

	"github.com/smart-core-os/sc-golang/internal/testproto"
	"github.com/smart-core-os/sc-golang/internal/vt"
)

// Scalars fills the scalar group: default_int32, default_string (implicit presence), optional_int32 (explicit
// presence, by case split) and the frame witness default_int64.
func Scalars(m *testproto.TestAllTypes, name string) {
	m.DefaultInt32 = vt.Int32(name + ".i32")
	m.DefaultString = vt.StrOrd(name + ".str")
	m.DefaultInt64 = vt.Int64(name + ".i64")
	if vt.Choose(name+".hasOpt", 2) == 1 {
		v := vt.Int32(name + ".opt")
		m.OptionalInt32 = &v
	}
}

// Small fills default_int32, default_int64 (implicit presence) and optional_int32 (explicit presence, by case split).
func Small(m *testproto.TestAllTypes, name string) {
	m.DefaultInt32 = vt.Int32(name + ".i32")
	m.DefaultInt64 = vt.Int64(name + ".i64")
	if vt.Choose(name+".hasOpt", 2) == 1 {
		v := vt.Int32(name + ".opt")
		m.OptionalInt32 = &v
	}
}

// Subsets returns the option subsets explored: every subset of the n options of size <= 2 plus the full set
// (quick), or all 2^n subsets (thorough).
func Subsets(n int) []int {
	var out []int
	if vt.Bound("allOptionSubsets", 0, 1) == 1 {
		vt.Unwind(1<<n + 8)
		for s := 0; s < 1<<n; s++ {
			out = append(out, s)
		}
		return out
	}
	out = append(out, 0)
	for i := 0; i < n; i++ {
		out = append(out, 1<<i)
	}
	for i := 0; i < n; i++ {
		for j := i + 1; j < n; j++ {
			out = append(out, 1<<i|1<<j)
		}
	}
	out = append(out, 1<<n-1)
	return out
}

// Foreign fills default_foreign_message (absent, or present with symbolic leaves c, d).
func Foreign(m *testproto.TestAllTypes, name string) {
	if vt.Choose(name+".hasForeign", 2) == 1 {
		m.DefaultForeignMessage = &testproto.ForeignMessage{C: vt.Int32(name + ".f.c"), D: vt.Int32(name + ".f.d")}
	}
}

// Oneof fills the oneof group: none, the int32 arm, or the nested-message arm.
func Oneof(m *testproto.TestAllTypes, name string) {
	switch vt.Choose(name+".oneof", 3) {
	case 1:
		m.OneofDefault = &testproto.TestAllTypes_OneofDefaultInt32{OneofDefaultInt32: vt.Int32(name + ".oneof.i")}
	case 2:
		m.OneofDefault = &testproto.TestAllTypes_OneofDefaultNestedMessage{OneofDefaultNestedMessage: &testproto.TestAllTypes_NestedMessage{A: vt.Int32(name + ".oneof.a")}}
	}
}

var idx = []string{"0", "1", "2"}

// Repeated fills repeated_int32 (length 0..2) and repeated_foreign_message (length 0..1).
func Repeated(m *testproto.TestAllTypes, name string) {
	n := vt.Choose(name+".repLen", 3)
	for i := 0; i < n; i++ {
		m.RepeatedInt32 = append(m.RepeatedInt32, vt.Int32(name+".rep."+idx[i]))
	}
	if vt.Choose(name+".repMsgLen", 2) == 1 {
		m.RepeatedForeignMessage = append(m.RepeatedForeignMessage, &testproto.ForeignMessage{C: vt.Int32(name + ".repmsg.c"), D: vt.Int32(name + ".repmsg.d")})
	}
}

// Map fills map_string_string with 0..1 entries.
func Map(m *testproto.TestAllTypes, name string) {
	if vt.Choose(name+".mapLen", 2) == 1 {
		m.MapStringString = map[string]string{vt.StrOrd(name + ".map.k"): vt.StrOrd(name + ".map.v")}
	}
}

// Mask returns a field mask for the given paths; nil means "no mask".
func Mask(paths ...string) *fieldmaskpb.FieldMask {
	return &fieldmaskpb.FieldMask{Paths: paths}
}

// PickMask chooses one of the given masks (index by vt.Choose).
func PickMask(name string, masks []*fieldmaskpb.FieldMask) (*fieldmaskpb.FieldMask, int) {
	i := vt.Choose(name, len(masks))
	return masks[i], i
}

// Has reports whether the mask names path p exactly.
func Has(m *fieldmaskpb.FieldMask, p string) bool {
	if m == nil {
		return false
	}
	for _, q := range m.Paths {
		if q == p {
			return true
		}
	}
	return false
}

// Covers reports whether some mask path equals p or is a parent of p ("a" covers "a.b").
func Covers(m *fieldmaskpb.FieldMask, p string) bool {
	if m == nil {
		return false
	}
	for _, q := range m.Paths {
		if q == p || (len(p) > len(q) && p[:len(q)] == q && p[len(q)] == '.') {
			return true
		}
	}
	return false
}

// Touches reports whether some mask path equals p, is a parent of p or a child of p.
func Touches(m *fieldmaskpb.FieldMask, p string) bool {
	if m == nil {
		return false
	}
	for _, q := range m.Paths {
		if q == p || (len(p) > len(q) && p[:len(q)] == q && p[len(q)] == '.') || (len(q) > len(p) && q[:len(p)] == p && q[len(p)] == '.') {
			return true
		}
	}
	return false
}

// ---- isolation driver for collection-shaped trait models (C07) ----

// CollOps adapts one collection of a trait model (hails, publications, consumables, ...) to the isolation driver.
// Absent operations are nil. Messages are proto.Message so that one driver serves every model.
type CollOps struct {
	New      func(variant int, id string) proto.Message // a populated message; id "" lets the model choose
	ID       func(m proto.Message) string
	Scribble func(m proto.Message) // the caller modifies a message it has written
	Create   func(m proto.Message) (proto.Message, error)
	Get      func(id string, mask *fieldmaskpb.FieldMask) proto.Message // nil mask: no read mask
	Update   func(id string, m proto.Message) (proto.Message, error)
	Delete   func(id string) (proto.Message, error)
	List     func(mask *fieldmaskpb.FieldMask) []proto.Message
	// Sub subscribes to the whole collection and returns a non-blocking poll of the next change (old, new values)
	Sub func(ctx context.Context) func() (old, new proto.Message, ok bool)
}

type kept struct {
	m, copy proto.Message
	label   string
}

// CollectionIsolation drives create / read / list / subscribe / masked reads / update / delete on one collection and
// checks that every message that crossed the API stays what it was (deep compare + the engine's freeze monitor), and
// that the store is unaffected by the caller modifying a written message and by masked reads.
func CollectionIsolation(o CollOps) {
	var keptMsgs []kept
	isNil := func(m proto.Message) bool { return m == nil || !m.ProtoReflect().IsValid() }
	keep := func(m proto.Message, label string) {
		if isNil(m) {
			return
		}
		keptMsgs = append(keptMsgs, kept{m, proto.Clone(m), label})
		vt.Freeze(m, label)
	}
	recheck := func(after string) {
		for _, k := range keptMsgs {
			vt.Assert(proto.Equal(k.m, k.copy), k.label+"-unchanged-after-"+after)
		}
		vt.CheckFrozen()
	}
	w1 := o.New(1, "")
	r1, err := o.Create(w1)
	if err != nil || isNil(r1) {
		vt.Reach("model-rejects-the-generated-message")
		return
	}
	id := o.ID(r1)
	r1c := proto.Clone(r1)
	o.Scribble(w1)
	g1 := o.Get(id, nil)
	vt.Assert(proto.Equal(g1, r1c), "store-unaffected-by-caller-modifying-the-created-message")
	keep(r1, "create-result")
	keep(g1, "get-result")
	for _, m := range o.List(nil) {
		keep(m, "list-result")
	}
	ctx, cancel := context.WithCancel(context.Background())
	defer cancel()
	var poll func() (proto.Message, proto.Message, bool)
	drain := func(label string) {
		if poll == nil {
			return
		}
		vt.Settle()
		for i := 0; i < 3; i++ {
			ov, nv, ok := poll()
			if !ok {
				return
			}
			keep(ov, label+"-old-value")
			keep(nv, label+"-new-value")
		}
	}
	if o.Sub != nil {
		poll = o.Sub(ctx)
		drain("pull-seed")
		recheck("subscribing")
	}
	empty := &fieldmaskpb.FieldMask{}
	keep(o.Get(id, empty), "masked-get-result")
	for _, m := range o.List(empty) {
		keep(m, "masked-list-result")
	}
	recheck("masked-reads")
	vt.Assert(proto.Equal(o.Get(id, nil), r1c), "masked-reads-leave-the-store-unchanged")
	if o.Update != nil {
		w2 := o.New(2, id)
		r2, err := o.Update(id, w2)
		if err == nil && !isNil(r2) {
			r2c := proto.Clone(r2)
			o.Scribble(w2)
			vt.Assert(proto.Equal(o.Get(id, nil), r2c), "store-unaffected-by-caller-modifying-the-updated-message")
			keep(r2, "update-result")
			drain("pull-update")
		}
		recheck("update")
	}
	if o.Delete != nil {
		d, err := o.Delete(id)
		if err == nil {
			keep(d, "delete-result")
			drain("pull-remove")
		}
		recheck("delete")
	}
	vt.Reach("done")
}
