//go:build verif

// Package vth holds helpers shared by the verification harnesses: builders of symbolic messages
// of the all-field-kinds test message restricted to the universe of DESIGN.md section 4.
package vth

import (
	"google.golang.org/protobuf/types/known/fieldmaskpb"

	"github.com/smart-core-os/sc-golang/internal/testproto"
	"github.com/smart-core-os/sc-golang/internal/vt"
)

// Scalars fills the scalar group: default_int32, default_string (implicit presence), optional_int32 (explicit
// presence, by case split) and the frame witness default_int64.
func Scalars(m *testproto.TestAllTypes, name string) {
	m.DefaultInt32 = vt.Int32(name + ".i32")
	m.DefaultString = vt.StrOrd(name + ".str")
	m.DefaultInt64 = vt.Int64(name + ".i64")
	if vt.Choose(name+".hasOpt", 2) == 1 {
		v := vt.Int32(name + ".opt")
		m.OptionalInt32 = &v
	}
}

// Small fills default_int32, default_int64 (implicit presence) and optional_int32 (explicit presence, by case split).
func Small(m *testproto.TestAllTypes, name string) {
	m.DefaultInt32 = vt.Int32(name + ".i32")
	m.DefaultInt64 = vt.Int64(name + ".i64")
	if vt.Choose(name+".hasOpt", 2) == 1 {
		v := vt.Int32(name + ".opt")
		m.OptionalInt32 = &v
	}
}

// Subsets returns the option subsets explored: every subset of the n options of size <= 2 plus the full set
// (quick), or all 2^n subsets (thorough).
func Subsets(n int) []int {
	var out []int
	if vt.Bound("allOptionSubsets", 0, 1) == 1 {
		for s := 0; s < 1<<n; s++ {
			out = append(out, s)
		}
		return out
	}
	out = append(out, 0)
	for i := 0; i < n; i++ {
		out = append(out, 1<<i)
	}
	for i := 0; i < n; i++ {
		for j := i + 1; j < n; j++ {
			out = append(out, 1<<i|1<<j)
		}
	}
	out = append(out, 1<<n-1)
	return out
}

// Foreign fills default_foreign_message (absent, or present with symbolic leaves c, d).
func Foreign(m *testproto.TestAllTypes, name string) {
	if vt.Choose(name+".hasForeign", 2) == 1 {
		m.DefaultForeignMessage = &testproto.ForeignMessage{C: vt.Int32(name + ".f.c"), D: vt.Int32(name + ".f.d")}
	}
}

// Oneof fills the oneof group: none, the int32 arm, or the nested-message arm.
func Oneof(m *testproto.TestAllTypes, name string) {
	switch vt.Choose(name+".oneof", 3) {
	case 1:
		m.OneofDefault = &testproto.TestAllTypes_OneofDefaultInt32{OneofDefaultInt32: vt.Int32(name + ".oneof.i")}
	case 2:
		m.OneofDefault = &testproto.TestAllTypes_OneofDefaultNestedMessage{OneofDefaultNestedMessage: &testproto.TestAllTypes_NestedMessage{A: vt.Int32(name + ".oneof.a")}}
	}
}

var idx = []string{"0", "1", "2"}

// Repeated fills repeated_int32 (length 0..2) and repeated_foreign_message (length 0..1).
func Repeated(m *testproto.TestAllTypes, name string) {
	n := vt.Choose(name+".repLen", 3)
	for i := 0; i < n; i++ {
		m.RepeatedInt32 = append(m.RepeatedInt32, vt.Int32(name+".rep."+idx[i]))
	}
	if vt.Choose(name+".repMsgLen", 2) == 1 {
		m.RepeatedForeignMessage = append(m.RepeatedForeignMessage, &testproto.ForeignMessage{C: vt.Int32(name + ".repmsg.c"), D: vt.Int32(name + ".repmsg.d")})
	}
}

// Map fills map_string_string with 0..1 entries.
func Map(m *testproto.TestAllTypes, name string) {
	if vt.Choose(name+".mapLen", 2) == 1 {
		m.MapStringString = map[string]string{vt.StrOrd(name + ".map.k"): vt.StrOrd(name + ".map.v")}
	}
}

// Mask returns a field mask for the given paths; nil means "no mask".
func Mask(paths ...string) *fieldmaskpb.FieldMask {
	return &fieldmaskpb.FieldMask{Paths: paths}
}

// PickMask chooses one of the given masks (index by vt.Choose).
func PickMask(name string, masks []*fieldmaskpb.FieldMask) (*fieldmaskpb.FieldMask, int) {
	i := vt.Choose(name, len(masks))
	return masks[i], i
}

// Has reports whether the mask names path p exactly.
func Has(m *fieldmaskpb.FieldMask, p string) bool {
	if m == nil {
		return false
	}
	for _, q := range m.Paths {
		if q == p {
			return true
		}
	}
	return false
}

// Covers reports whether some mask path equals p or is a parent of p ("a" covers "a.b").
func Covers(m *fieldmaskpb.FieldMask, p string) bool {
	if m == nil {
		return false
	}
	for _, q := range m.Paths {
		if q == p || (len(p) > len(q) && p[:len(q)] == q && p[len(q)] == '.') {
			return true
		}
	}
	return false
}

// Touches reports whether some mask path equals p, is a parent of p or a child of p.
func Touches(m *fieldmaskpb.FieldMask, p string) bool {
	if m == nil {
		return false
	}
	for _, q := range m.Paths {
		if q == p || (len(p) > len(q) && p[:len(q)] == q && p[len(q)] == '.') || (len(q) > len(p) && q[:len(p)] == p && q[len(p)] == '.') {
			return true
		}
	}
	return false
}
