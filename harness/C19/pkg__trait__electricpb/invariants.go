//go:build verif

package electricpb

import (
	"context"
	"time"

	"google.golang.org/grpc/codes"
	"google.golang.org/grpc/status"
	"google.golang.org/protobuf/types/known/fieldmaskpb"

	"github.com/smart-core-os/sc-api/go/traits"
	"github.com/smart-core-os/sc-golang/internal/vt"
	"github.com/smart-core-os/sc-golang/pkg/resource"
	"github.com/smart-core-os/sc-golang/pkg/time/clock"
)

var vtMode = []string{"m0", "m1", "m2", "m3"}
var vtModeIDs = []string{"0000000000000010", "0000000000000020", "0000000000000030", "0000000000000040"}

type vtClk struct{ now time.Time }

func (c *vtClk) Now() time.Time                         { return c.now }
func (c *vtClk) At(t time.Time) <-chan time.Time        { return nil }
func (c *vtClk) After(d time.Duration) <-chan time.Time { return nil }
func (c *vtClk) Every(d time.Duration) clock.Ticker     { return nil }

type vtState struct {
	m      *Model
	ids    []string
	normal []bool
	active string // "" = never changed
	clk    *vtClk
}

// vtArbitraryState: 0..3 modes with arbitrary ids and Normal flags (at most one normal), the active mode either never
// changed (blank) or naming one of the modes.
func vtArbitraryState() *vtState {
	s := &vtState{clk: &vtClk{now: vt.Time("now")}}
	n := vt.Choose("modes", vt.Bound("modes", 3, 4)+1)
	var opts []resource.Option
	normals := 0
	for i := 0; i < n; i++ {
		// mode ids only matter up to equality and order: fixed distinct ordinals are without loss of generality
		id := vtModeIDs[i]
		isNormal := vt.Choose(vtMode[i]+".normal", 2) == 1
		if isNormal {
			normals++
		}
		s.ids = append(s.ids, id)
		s.normal = append(s.normal, isNormal)
		opts = append(opts, resource.WithInitialRecord(id, &traits.ElectricMode{Id: id, Normal: isNormal, Title: "t"}))
	}
	vt.Assume(normals <= 1)
	activeMode := &traits.ElectricMode{}
	if n > 0 {
		a := vt.Choose("active", n+1)
		if a < n {
			s.active = s.ids[a]
			// the active mode holds a copy of the mode taken when it became active: its Normal flag may be stale
			// (UpdateMode moves the normal flag without touching the active copy)
			activeMode = &traits.ElectricMode{Id: s.ids[a], Normal: vt.Choose("active.normalFlagCopy", 2) == 1, Title: "t"}
		}
	}
	s.m = &Model{
		modes:      resource.NewCollection(opts...),
		activeMode: resource.NewValue(resource.WithInitialValue(activeMode)),
		demand:     resource.NewValue(resource.WithInitialValue(&traits.ElectricDemand{})),
		clock:      s.clk,
	}
	return s
}

func (s *vtState) has(id string) bool {
	for _, x := range s.ids {
		if x == id {
			return true
		}
	}
	return false
}

// vtInvariants: at most one normal mode; the active mode is blank (never changed) or names an existing mode.
func vtInvariants(m *Model, everChanged bool, label string) {
	normals := 0
	for _, md := range m.Modes() {
		if md.Normal {
			normals++
		}
	}
	vt.Assert(normals <= 1, label+":at-most-one-normal-mode")
	a := m.ActiveMode()
	if a.Id == "" {
		vt.Assert(!everChanged, label+":active-mode-blank-only-if-never-changed")
	} else {
		_, ok := m.FindMode(a.Id)
		vt.Assert(ok, label+":active-mode-refers-to-an-existing-mode")
	}
}

// One arbitrary operation from an arbitrary invariant-satisfying state re-establishes the invariants and has the
// documented outcome. By induction: every sequence of operations.
func VT_C19_Step() {
	s := vtArbitraryState()
	m := s.m
	id := vt.StrOrd("id")
	everChanged := s.active != ""
	switch vt.Choose("op", 7) {
	case 0: // CreateMode
		_, err := m.CreateMode(&traits.ElectricMode{Normal: vt.Choose("new.normal", 2) == 1, Title: "n"})
		_ = err
		vtInvariants(m, everChanged, "create")
		vt.Reach("create")
	case 1: // AddMode
		vt.Assume(id != "")
		err := m.AddMode(&traits.ElectricMode{Id: id, Normal: vt.Choose("new.normal", 2) == 1, Title: "n"})
		if s.has(id) {
			vt.Assert(err != nil, "add-of-existing-id-fails")
		}
		vtInvariants(m, everChanged, "add")
		vt.Reach("add")
	case 2: // UpdateMode with a mask from {nil, normal, title}
		masks := []*fieldmaskpb.FieldMask{nil, {Paths: []string{"normal"}}, {Paths: []string{"title"}}}
		mask := masks[vt.Choose("mask", 3)]
		var opts []resource.WriteOption
		if mask != nil {
			opts = append(opts, resource.WithUpdateMask(mask))
		}
		_, err := m.UpdateMode(&traits.ElectricMode{Id: id, Normal: vt.Choose("new.normal", 2) == 1, Title: "u"}, opts...)
		if !s.has(id) {
			vt.Assert(status.Code(err) == codes.NotFound, "update-of-absent-mode-not-found")
		}
		vtInvariants(m, everChanged, "update")
		vt.Reach("update")
	case 3: // DeleteMode
		allowMissing := vt.Choose("allowMissing", 2) == 1
		err := m.DeleteMode(id, resource.WithAllowMissing(allowMissing))
		switch {
		case id == s.active && id != "":
			vt.Assert(err != nil, "active-mode-is-never-deleted")
			_, ok := m.FindMode(id)
			vt.Assert(ok, "active-mode-still-exists")
		case !s.has(id) && allowMissing:
			vt.Assert(err == nil, "delete-absent-with-allow-missing-succeeds")
		case !s.has(id):
			vt.Assert(status.Code(err) == codes.NotFound, "delete-absent-is-not-found")
		default:
			vt.Assert(err == nil, "delete-existing-inactive-mode-succeeds")
			_, ok := m.FindMode(id)
			vt.Assert(!ok, "deleted-mode-is-gone")
		}
		vtInvariants(m, everChanged, "delete")
		vt.Reach("delete")
	case 4: // SetActiveMode
		err := m.SetActiveMode(&traits.ElectricMode{Id: id, Title: "set"})
		if s.has(id) {
			vt.Assert(err == nil, "set-active-to-existing-mode-succeeds")
			everChanged = true
		} else {
			vt.Assert(err != nil, "set-active-to-unknown-mode-fails")
		}
		vtInvariants(m, everChanged, "set-active")
		vt.Reach("set-active")
	case 5: // ChangeActiveMode
		before := m.ActiveMode()
		got, err := m.ChangeActiveMode(id)
		if s.has(id) {
			vt.Assert(err == nil, "change-active-to-existing-mode-succeeds")
			everChanged = true
			if err == nil {
				vt.Assert(got.Id == id, "change-active-selects-the-mode")
				vt.Assert(m.ActiveMode().Id == id, "active-mode-is-the-selected-mode")
				if before.Id != id {
					vt.Assert(got.StartTime.AsTime().Equal(s.clk.now), "switching-stamps-start-time-with-the-model-clock")
				} else {
					vt.Assert((got.StartTime == nil) == (before.StartTime == nil), "same-mode-leaves-start-time")
				}
			}
		} else {
			vt.Assert(status.Code(err) == codes.NotFound, "change-active-to-unknown-mode-not-found")
		}
		vtInvariants(m, everChanged, "change-active")
		vt.Reach("change-active")
	case 6: // ChangeToNormalMode (ClearActiveMode)
		before := m.ActiveMode()
		got, err := m.ChangeToNormalMode()
		normalID := ""
		for i := range s.ids {
			if s.normal[i] {
				normalID = s.ids[i]
			}
		}
		if normalID == "" {
			vt.Assert(err != nil, "clear-without-normal-mode-fails")
		} else {
			vt.Assert(err == nil, "clear-selects-normal-mode")
			everChanged = true
			if err == nil {
				vt.Assert(vt.And(got.Id == normalID, m.ActiveMode().Id == normalID), "clear-active-selects-the-normal-mode")
				if before.Id != normalID {
					vt.Assert(got.StartTime.AsTime().Equal(s.clk.now), "clear-switching-stamps-start-time-with-the-model-clock")
				}
			}
		}
		vtInvariants(m, everChanged, "clear-active")
		vt.Reach("clear-active")
	}
}

// Two concurrent operations that each would be fine alone: the invariants hold under every interleaving.
func VT_C19_Concurrent() {
	clk := &vtClk{now: vt.Time("now")}
	m := &Model{
		modes: resource.NewCollection(resource.WithInitialRecord(vtModeIDs[0], &traits.ElectricMode{Id: vtModeIDs[0], Title: "t"}),
			resource.WithInitialRecord(vtModeIDs[1], &traits.ElectricMode{Id: vtModeIDs[1], Title: "t"})),
		activeMode: resource.NewValue(resource.WithInitialValue(&traits.ElectricMode{})),
		demand:     resource.NewValue(resource.WithInitialValue(&traits.ElectricDemand{})),
		clock:      clk,
	}
	done := make(chan struct{}, 2)
	changed := false
	switch vt.Choose("pair", 4) {
	case 2: // two updates making different modes normal
		go func() {
			m.UpdateMode(&traits.ElectricMode{Id: vtModeIDs[0], Normal: true, Title: "u"})
			done <- struct{}{}
		}()
		go func() {
			m.UpdateMode(&traits.ElectricMode{Id: vtModeIDs[1], Normal: true, Title: "u"}, resource.WithUpdatePaths("normal"))
			done <- struct{}{}
		}()
	case 3: // deleting a mode while the active mode is cleared to it (it is the normal mode)
		m.UpdateMode(&traits.ElectricMode{Id: vtModeIDs[1], Normal: true, Title: "n"})
		go func() { m.DeleteMode(vtModeIDs[1]); done <- struct{}{} }()
		go func() { m.ChangeToNormalMode(); done <- struct{}{} }()
		changed = true
	case 0: // two ways of making a mode normal
		go func() { m.CreateMode(&traits.ElectricMode{Normal: true, Title: "n"}); done <- struct{}{} }()
		go func() {
			m.UpdateMode(&traits.ElectricMode{Id: vtModeIDs[0], Normal: true, Title: "u"})
			done <- struct{}{}
		}()
	case 1: // deleting a mode while it is being made active
		var cerr error
		go func() { m.DeleteMode(vtModeIDs[0]); done <- struct{}{} }()
		go func() { _, cerr = m.ChangeActiveMode(vtModeIDs[0]); done <- struct{}{} }()
		defer func() { _ = cerr }()
		changed = true
	}
	<-done
	<-done
	if changed {
		a := m.ActiveMode()
		if a.Id != "" {
			_, ok := m.FindMode(a.Id)
			vt.Assert(ok, "concurrent:active-mode-refers-to-an-existing-mode")
		}
	}
	normals := 0
	for _, md := range m.Modes() {
		if md.Normal {
			normals++
		}
	}
	vt.Assert(normals <= 1, "concurrent:at-most-one-normal-mode")
	vt.Reach("done")
}

// Through the MemorySettingsApi server: two concurrent allow-missing deletes of one existing mode both succeed (an
// absent mode is fine when allow_missing is set, whoever removes it first), and a plain delete of an absent mode is NotFound.
func VT_C19_ServerConcurrentDeleteAllowMissing() {
	m := &Model{
		modes:      resource.NewCollection(resource.WithInitialRecord(vtModeIDs[0], &traits.ElectricMode{Id: vtModeIDs[0], Title: "t"})),
		activeMode: resource.NewValue(resource.WithInitialValue(&traits.ElectricMode{})),
		demand:     resource.NewValue(resource.WithInitialValue(&traits.ElectricDemand{})),
		clock:      &vtClk{now: vt.Time("now")},
	}
	srv := NewModelServer(m)
	errs := make([]error, 2)
	done := make(chan struct{}, 2)
	for i := 0; i < 2; i++ {
		i := i
		go func() {
			_, errs[i] = srv.DeleteMode(context.Background(), &DeleteModeRequest{Id: vtModeIDs[0], AllowMissing: true})
			done <- struct{}{}
		}()
	}
	<-done
	<-done
	vt.Assert(vt.And(errs[0] == nil, errs[1] == nil), "allow-missing-delete-succeeds-whoever-removes-the-mode-first")
	_, ok := m.FindMode(vtModeIDs[0])
	vt.Assert(!ok, "mode-is-gone")
	_, err := srv.DeleteMode(context.Background(), &DeleteModeRequest{Id: vtModeIDs[0]})
	vt.Assert(status.Code(err) == codes.NotFound, "plain-delete-of-an-absent-mode-is-not-found")
	vt.Reach("done")
}
