//go:build verif

package name

import (
	"google.golang.org/protobuf/types/known/fieldmaskpb"

	"github.com/smart-core-os/sc-api/go/traits"
	"github.com/smart-core-os/sc-golang/internal/vt"
)

// The default-name interceptor fills in only empty names and touches nothing else.
func VT_C12_ReplaceEmptyName() {
	reqName := vt.Str("req.name")
	def := vt.Str("default")
	mask := &fieldmaskpb.FieldMask{Paths: []string{"state"}}
	req := &traits.GetOnOffRequest{Name: reqName, ReadMask: mask}
	replaceEmptyNameField(req, def)
	if reqName == "" {
		vt.Assert(req.Name == def, "empty-name-replaced-by-default")
	} else {
		vt.Assert(req.Name == reqName, "non-empty-name-kept")
	}
	vt.Assert(vt.And(req.ReadMask == mask, len(mask.Paths) == 1, mask.Paths[0] == "state"), "other-fields-untouched")
	// a message without a name field and a non-message are left alone (and do not panic)
	o := &traits.OnOff{State: traits.OnOff_ON}
	replaceEmptyNameField(o, def)
	vt.Assert(o.State == traits.OnOff_ON, "message-without-name-untouched")
	replaceEmptyNameField(42, def)
	replaceEmptyNameField(nil, def)
	vt.Reach("done")
}

// Names that are not empty but consist of white space (or merely contain it) are names: they are kept.
func VT_C12_WhitespaceNamesKept() {
	names := []string{" ", "\t\n", " ", " x ", "x y"}
	reqName := names[vt.Choose("name", len(names))]
	req := &traits.GetOnOffRequest{Name: reqName}
	replaceEmptyNameField(req, "the-default")
	vt.Assert(req.Name == reqName, "non-empty-name-kept-even-when-it-is-white-space")
	vt.Reach("done")
}
