//go:build verif

package router

import (
	"sync"

	"google.golang.org/grpc/codes"
	"google.golang.org/grpc/status"

	"github.com/smart-core-os/sc-golang/internal/vt"
)

type vtLog struct {
	changes []Change
}

// vtSetup builds a router holding 0..2 entries through the public API and returns the model map (as two slots).
func vtSetup(opts ...Option) (Router, *vtLog, []string, []any) {
	log := &vtLog{}
	opts = append(opts, WithOnChange(func(c Change) { log.changes = append(log.changes, c) }))
	r := NewRouter(opts...)
	n := vt.Choose("entries", 3)
	var names []string
	var clients []any
	if n >= 1 {
		names = append(names, vt.Str("n1"))
		clients = append(clients, vt.Msg("c1"))
		r.Add(names[0], clients[0])
	}
	if n >= 2 {
		n2 := vt.Str("n2")
		vt.Assume(n2 != names[0])
		names = append(names, n2)
		clients = append(clients, vt.Msg("c2"))
		r.Add(n2, clients[1])
	}
	log.changes = nil
	return r, log, names, clients
}

func vtLookup(names []string, clients []any, n string) (any, bool) {
	for i := range names {
		if names[i] == n {
			return clients[i], true
		}
	}
	return nil, false
}

// One arbitrary Add / Remove / Has / Get (no factories) on an arbitrary registry against a map model.
func VT_C12_RegistryStep() {
	r, log, names, clients := vtSetup()
	n := vt.Str("n")
	want, present := vtLookup(names, clients, n)
	switch vt.Choose("op", 4) {
	case 0: // Add
		c := vt.Msg("c")
		old := r.Add(n, c)
		vt.Assert(old == want, "add-returns-previous-client")
		got, err := r.Get(n)
		vt.Assert(vt.And(err == nil, got == c), "add-then-get-returns-new-client")
		vt.Assert(r.Has(n), "add-then-has")
		vt.Assert(len(log.changes) == 1, "add-reports-exactly-one-change")
		if len(log.changes) == 1 {
			ch := log.changes[0]
			vt.Assert(vt.And(ch.Name == n, ch.Old == want, ch.New == c, !ch.Auto), "add-change-content")
		}
		vt.Reach("add")
	case 1: // Remove
		old := r.Remove(n)
		vt.Assert(old == want, "remove-returns-removed-client")
		vt.Assert(!r.Has(n), "remove-then-not-has")
		_, err := r.Get(n)
		vt.Assert(status.Code(err) == codes.NotFound, "remove-then-get-not-found")
		if present {
			vt.Assert(len(log.changes) == 1, "remove-reports-one-change")
			if len(log.changes) == 1 {
				ch := log.changes[0]
				vt.Assert(vt.And(ch.Name == n, ch.Old == want, ch.New == nil, !ch.Auto), "remove-change-content")
			}
		} else {
			vt.Assert(len(log.changes) == 0, "remove-of-absent-reports-nothing")
		}
		vt.Reach("remove")
	case 2: // Has
		vt.Assert(r.Has(n) == present, "has-iff-registered")
		vt.Assert(len(log.changes) == 0, "has-changes-nothing")
		vt.Reach("has")
	case 3: // Get
		got, err := r.Get(n)
		if present {
			vt.Assert(vt.And(err == nil, got == want), "get-returns-registered-client")
		} else {
			vt.Assert(status.Code(err) == codes.NotFound, "get-unknown-is-not-found")
			vt.Assert(got == nil, "get-unknown-returns-nil")
		}
		vt.Assert(len(log.changes) == 0, "get-without-factory-changes-nothing")
		vt.Reach("get")
	}
	// other entries are untouched
	for i := range names {
		if names[i] != n {
			got, err := r.Get(names[i])
			vt.Assert(vt.And(err == nil, got == clients[i]), "other-entries-untouched")
		}
	}
}

// Get with fallback and factory fakes answering arbitrarily.
func VT_C12_GetFactoryFallback() {
	type fake struct {
		calls  int
		name   string
		client any
		err    error
	}
	mk := func(prefix string) *fake {
		f := &fake{}
		if vt.Choose(prefix+".hasClient", 2) == 1 {
			f.client = vt.Msg(prefix + ".client")
		}
		if vt.Choose(prefix+".hasErr", 2) == 1 {
			f.err = vt.Err(prefix + ".err")
		}
		return f
	}
	fb, fc := mk("fallback"), mk("factory")
	var opts []Option
	useFb, useFc := vt.Choose("useFallback", 2) == 1, vt.Choose("useFactory", 2) == 1
	if useFb {
		opts = append(opts, WithFallback(func(n string) (any, error) { fb.calls++; fb.name = n; return fb.client, fb.err }))
	}
	if useFc {
		opts = append(opts, WithFactory(func(n string) (any, error) { fc.calls++; fc.name = n; return fc.client, fc.err }))
	}
	r, log, names, clients := vtSetup(opts...)
	n := vt.Str("n")
	want, present := vtLookup(names, clients, n)
	got, err := r.Get(n)
	fbOK := useFb && fb.client != nil && fb.err == nil
	fcOK := useFc && fc.client != nil && fc.err == nil
	switch {
	case present:
		vt.Assert(vt.And(err == nil, got == want), "registered-client-wins")
		vt.Assert(vt.And(fb.calls == 0, fc.calls == 0), "registered-touches-no-factory")
		vt.Assert(len(log.changes) == 0, "registered-no-change")
	case fbOK:
		vt.Assert(vt.And(err == nil, got == fb.client), "fallback-result-returned")
		vt.Assert(vt.And(fb.calls == 1, fb.name == n, fc.calls == 0), "fallback-before-factory")
		vt.Assert(!r.Has(n), "fallback-result-not-remembered")
		vt.Assert(len(log.changes) == 0, "fallback-no-change")
	case fcOK:
		vt.Assert(vt.And(err == nil, got == fc.client), "factory-result-returned")
		vt.Assert(vt.And(fc.calls == 1, fc.name == n), "factory-called-once-with-name")
		vt.Assert(r.Has(n), "factory-result-remembered")
		got2, err2 := r.Get(n)
		vt.Assert(vt.And(err2 == nil, got2 == fc.client, fc.calls == 1), "factory-client-reused")
		vt.Assert(len(log.changes) == 1, "factory-reports-one-change")
		if len(log.changes) == 1 {
			ch := log.changes[0]
			vt.Assert(vt.And(ch.Name == n, ch.Old == nil, ch.New == fc.client, ch.Auto), "factory-change-content")
		}
	default:
		vt.Assert(status.Code(err) == codes.NotFound, "no-client-is-not-found")
		vt.Assert(got == nil, "no-client-returns-nil")
		vt.Assert(!r.Has(n), "not-found-remembers-nothing")
		vt.Assert(len(log.changes) == 0, "not-found-no-change")
	}
	vt.Reach("done")
}

// Two concurrent first Gets of one name commit a single factory client.
func VT_C12_ConcurrentFirstGet() {
	var mu sync.Mutex
	made := 0
	var autoChanges []Change
	cs := []any{vt.Msg("k1"), vt.Msg("k2")}
	r := NewRouter(WithFactory(func(n string) (any, error) {
		mu.Lock()
		defer mu.Unlock()
		c := cs[made%2]
		made++
		return c, nil
	}), WithOnChange(func(c Change) {
		mu.Lock()
		defer mu.Unlock()
		autoChanges = append(autoChanges, c)
	}))
	n := vt.Str("n")
	var wg sync.WaitGroup
	res := make([]any, 2)
	errs := make([]error, 2)
	start := make(chan struct{}) // both Gets are released together (natively this aligns the race window)
	for i := 0; i < 2; i++ {
		i := i
		wg.Add(1)
		go func() {
			defer wg.Done()
			<-start
			res[i], errs[i] = r.Get(n)
		}()
	}
	close(start)
	wg.Wait()
	vt.Assert(vt.And(errs[0] == nil, errs[1] == nil), "both-gets-succeed")
	vt.Assert(res[0] == res[1], "both-gets-return-the-same-client")
	got, _ := r.Get(n)
	vt.Assert(got == res[0], "registry-holds-that-client")
	vt.Assert(len(autoChanges) == 1, "exactly-one-auto-change")
	if len(autoChanges) == 1 {
		vt.Assert(vt.And(autoChanges[0].Auto, autoChanges[0].New == got, autoChanges[0].Name == n), "auto-change-content")
	}
	vt.Reach("done")
}

// Concurrent Removes (and an Add) of one registered name: the registry behaves as a map under some one-at-a-time
// order - exactly one Remove returns the removed client and exactly one remove transition is reported for it.
func VT_C12_ConcurrentRemove() {
	var mu sync.Mutex
	var changes []Change
	r := NewRouter(WithOnChange(func(c Change) {
		mu.Lock()
		defer mu.Unlock()
		changes = append(changes, c)
	}))
	n := vt.Str("n")
	a, b := vt.Msg("a"), vt.Msg("b")
	vt.Assume(vt.MsgID(a) != vt.MsgID(b))
	r.Add(n, a)
	changes = nil
	withAdd := vt.Choose("withAdd", 2) == 1
	k := 3
	var wg sync.WaitGroup
	res := make([]any, k)
	start := make(chan struct{})
	for i := 0; i < k; i++ {
		i := i
		wg.Add(1)
		go func() {
			defer wg.Done()
			<-start
			if withAdd && i == 0 {
				res[i] = r.Add(n, b)
			} else {
				res[i] = r.Remove(n)
			}
		}()
	}
	close(start)
	wg.Wait()
	removedA, removedB := 0, 0
	first := 0
	if withAdd {
		first = 1
	}
	for i := first; i < k; i++ {
		if res[i] == any(a) {
			removedA++
		}
		if res[i] == any(b) {
			removedB++
		}
	}
	reportedA, reportedB := 0, 0
	for _, c := range changes {
		if c.New == nil && c.Old == any(a) {
			reportedA++
		}
		if c.New == nil && c.Old == any(b) {
			reportedB++
		}
	}
	if !withAdd {
		vt.Assert(removedA == 1, "exactly-one-remove-returns-the-removed-client")
		vt.Assert(reportedA == 1, "exactly-one-remove-transition-reported")
		vt.Assert(!r.Has(n), "removed-name-is-gone")
	} else {
		// Add(b) replaced a (returns a, nobody removes a) or came after a Remove of a (returns nil)
		if res[0] == any(a) {
			vt.Assert(vt.And(removedA == 0, reportedA == 0), "replaced-client-is-not-also-removed")
		} else {
			vt.Assert(vt.And(res[0] == nil, removedA == 1, reportedA == 1), "client-removed-before-the-add-is-removed-once")
		}
		vt.Assert(vt.And(removedB <= 1, removedB == reportedB), "added-client-removed-at-most-once-and-reported")
		vt.Assert(r.Has(n) == (removedB == 0), "name-present-iff-the-added-client-was-not-removed")
	}
	vt.Reach("done")
}
