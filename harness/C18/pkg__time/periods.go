//go:build verif

package time

import (
	"github.com/smart-core-os/sc-api/go/types/time"
	"google.golang.org/protobuf/types/known/timestamppb"

	"github.com/smart-core-os/sc-golang/internal/vt"
)

// vtTS is an arbitrary normalised timestamp: any int64 seconds, 0 <= nanos < 1e9.
func vtTS(name string) *timestamppb.Timestamp {
	s := vt.Int64(name + ".s")
	n := vt.Int32(name + ".n")
	vt.Assume(vt.And(n >= 0, n < 1000000000))
	return &timestamppb.Timestamp{Seconds: s, Nanos: n}
}

func tsLess(a, b *timestamppb.Timestamp) bool {
	return vt.Or(a.Seconds < b.Seconds, vt.And(a.Seconds == b.Seconds, a.Nanos < b.Nanos))
}
func tsEq(a, b *timestamppb.Timestamp) bool {
	return vt.And(a.Seconds == b.Seconds, a.Nanos == b.Nanos)
}

// CompareAscending is the chronological order and returns exactly -1, 0 or 1 (full 64/32-bit fields).
func VT_C18_CompareAscending() {
	a, b := vtTS("a"), vtTS("b")
	r := CompareAscending(a, b)
	vt.Observe("r", r)
	vt.Assert(vt.Implies(tsLess(a, b), r == -1), "before-gives-minus-one")
	vt.Assert(vt.Implies(tsLess(b, a), r == 1), "after-gives-plus-one")
	vt.Assert(vt.Implies(tsEq(a, b), r == 0), "equal-gives-zero")
	vt.Assert(vt.Or(r == -1, r == 0, r == 1), "result-in-minus1-0-1")
	// antisymmetry through the function itself
	r2 := CompareAscending(b, a)
	vt.Assert(r2 == -r, "antisymmetric")
	vt.Reach("done")
}

// Transitivity of the order induced by CompareAscending.
func VT_C18_CompareAscendingTransitive() {
	a, b, c := vtTS("a"), vtTS("b"), vtTS("c")
	ab, bc, ac := CompareAscending(a, b), CompareAscending(b, c), CompareAscending(a, c)
	vt.Assert(vt.Implies(vt.And(ab <= 0, bc <= 0), ac <= 0), "transitive-le")
	vt.Assert(vt.Implies(vt.And(ab < 0, bc <= 0), ac < 0), "transitive-lt")
	vt.Reach("done")
}

// vtPeriod is an arbitrary period: each endpoint absent or an arbitrary timestamp; start <= end when both present.
func vtPeriod(name string) *time.Period {
	p := &time.Period{}
	if vt.Choose(name+".hasStart", 2) == 1 {
		p.StartTime = vtTS(name + ".start")
	}
	if vt.Choose(name+".hasEnd", 2) == 1 {
		p.EndTime = vtTS(name + ".end")
	}
	if p.StartTime != nil && p.EndTime != nil {
		vt.Assume(vt.Or(tsLess(p.StartTime, p.EndTime), tsEq(p.StartTime, p.EndTime)))
	}
	return p
}

// max of lower bounds / min of upper bounds, with absent = unbounded.
// lowerLess(a,b): lower bound a (nil = -inf) is strictly below upper bound b (nil = +inf)
func lowerBelowUpper(lo, up *timestamppb.Timestamp) bool {
	if lo == nil || up == nil {
		return true
	}
	return tsLess(lo, up)
}
func lowerAtOrBelowUpper(lo, up *timestamppb.Timestamp) bool {
	if lo == nil || up == nil {
		return true
	}
	return vt.Or(tsLess(lo, up), tsEq(lo, up))
}
func periodEmpty(p *time.Period) bool {
	if p.StartTime == nil || p.EndTime == nil {
		return false
	}
	return tsEq(p.StartTime, p.EndTime)
}

// PeriodsIntersect <=> there is a non-empty period enclosed by both; PeriodsConnected <=> a possibly empty one.
func VT_C18_Periods() {
	p1, p2 := vtPeriod("p1"), vtPeriod("p2")
	gotI := PeriodsIntersect(p1, p2)
	gotC := PeriodsConnected(p1, p2)
	vt.Observe("intersect", gotI)
	vt.Observe("connected", gotC)
	// max(lower) < min(upper)  <=> every lower is below every upper (the own-period pairs hold by start<=end unless empty)
	wantI := vt.And(lowerBelowUpper(p1.StartTime, p2.EndTime), lowerBelowUpper(p2.StartTime, p1.EndTime),
		!periodEmpty(p1), !periodEmpty(p2))
	wantC := vt.And(lowerAtOrBelowUpper(p1.StartTime, p2.EndTime), lowerAtOrBelowUpper(p2.StartTime, p1.EndTime))
	vt.Assert(gotI == wantI, "intersect-iff-nonempty-overlap")
	vt.Assert(gotC == wantC, "connected-iff-overlap-or-touch")
	vt.Assert(PeriodsIntersect(p2, p1) == gotI, "intersect-symmetric")
	vt.Assert(PeriodsConnected(p2, p1) == gotC, "connected-symmetric")
	vt.Assert(vt.Implies(gotI, gotC), "intersect-implies-connected")
	vt.Reach("done")
}

func VT_C18_PeriodsNil() {
	p := vtPeriod("p")
	vt.Assert(!PeriodsIntersect(nil, p), "nil-intersect-1")
	vt.Assert(!PeriodsIntersect(p, nil), "nil-intersect-2")
	vt.Assert(!PeriodsConnected(nil, p), "nil-connected-1")
	vt.Assert(!PeriodsConnected(p, nil), "nil-connected-2")
	vt.Assert(!PeriodsConnected(nil, nil), "nil-connected-3")
	vt.Reach("done")
}
