//go:build verif

package modepb

import (
	"time"

	"google.golang.org/protobuf/proto"
	"google.golang.org/protobuf/types/known/durationpb"
	"google.golang.org/protobuf/types/known/timestamppb"

	"github.com/smart-core-os/sc-api/go/traits"
	"github.com/smart-core-os/sc-golang/internal/vt"
)

type Seg = traits.ElectricMode_Segment

var vtS = []string{"s0", "s1", "s2"}

const vtMaxLen = time.Duration(1) << 40

func vtSegments(name string, max int) []*Seg {
	n := vt.Choose(name+".n", max+1)
	out := make([]*Seg, n)
	for i := 0; i < n; i++ {
		s := &Seg{Magnitude: vt.IntF(name + "." + vtS[i] + ".mag")}
		if i == n-1 && vt.Choose(name+".lastInfinite", 2) == 1 {
		} else {
			l := vt.Dur(name + "." + vtS[i] + ".len")
			vt.Assume(vt.And(l >= 0, l < vtMaxLen))
			s.Length = durationpb.New(l)
		}
		out[i] = s
	}
	return out
}

func vtMagAt(segs []*Seg, t time.Duration) (float32, bool) {
	if t < 0 {
		return 0, false
	}
	var start time.Duration
	for _, s := range segs {
		if s.Length == nil {
			return s.Magnitude, true
		}
		end := start + s.Length.AsDuration()
		if t < end {
			return s.Magnitude, true
		}
		start = end
	}
	return 0, false
}

// vtInstant: an instant within +-2^44 ns of the epoch.
func vtInstant(name string) time.Time {
	t := vt.Time(name)
	n := t.UnixNano()
	vt.Assume(vt.And(n > -(int64(1)<<44), n < int64(1)<<44))
	return t
}

// vtModeMagAt: the meaning of a mode with a start time: the segment function translated to the start time.
func vtModeMagAt(m *traits.ElectricMode, t time.Time) (float32, bool) {
	return vtMagAt(m.Segments, t.Sub(m.StartTime.AsTime()))
}

// Mode-level MagnitudeAt / ActiveAt translate by the start time and then agree with the segment-level meaning.
func VT_C18_ModeMagnitudeAt() {
	m := &traits.ElectricMode{Id: "m", Segments: vtSegments("a", 2)}
	hasStart := vt.Choose("hasStart", 2) == 1
	if hasStart {
		m.StartTime = timestamppb.New(vtInstant("start"))
	}
	snap := proto.Clone(m)
	t := vtInstant("t")
	got, ok := MagnitudeAt(t, m)
	var want float32
	var inside bool
	if hasStart {
		want, inside = vtModeMagAt(m, t)
	} else {
		want, inside = vtMagAt(m.Segments, 0) // a mode without start time starts "now"
	}
	vt.Assert(ok == inside, "mode-magnitude-defined-iff-inside")
	if ok && inside {
		vt.Assert(got == want, "mode-magnitude-is-the-translated-step-function")
	}
	vt.Assert(proto.Equal(m, snap), "arguments-not-modified")
	vt.Reach("done")
}

// Shift of a mode with a start time is translation: shifted(u + d) == original(u).
func VT_C18_ModeShift() {
	m := &traits.ElectricMode{Id: "m", Segments: vtSegments("a", 2), StartTime: timestamppb.New(vtInstant("start"))}
	snap := proto.Clone(m)
	d := vt.Dur("d")
	vt.Assume(vt.And(d > -(time.Duration(1)<<44), d < time.Duration(1)<<44))
	out := Shift(d, m)
	u := vtInstant("u")
	want, inside := vtModeMagAt(m, u)
	got, ok := vtModeMagAt(out, u.Add(d))
	vt.Assert(ok == inside, "mode-shift-keeps-the-support")
	if ok && inside {
		vt.Assert(got == want, "mode-shift-is-translation")
	}
	vt.Assert(proto.Equal(m, snap), "arguments-not-modified")
	vt.Reach("done")
}

// Cut splits a mode at t without changing the function.
func VT_C18_ModeCut() {
	m := &traits.ElectricMode{Id: "m", Segments: vtSegments("a", vt.Bound("modeCutSegments", 1, 2)), StartTime: timestamppb.New(vtInstant("start"))}
	snap := proto.Clone(m)
	t := vtInstant("t")
	before, after, _ := Cut(t, m)
	u := vtInstant("u")
	want, inside := vtModeMagAt(m, u)
	var got float32
	ok := false
	if len(m.Segments) == 0 {
		vt.Reach("empty")
		return
	}
	if u.Before(t) {
		if before != nil {
			got, ok = vtModeMagAt(before, u)
		}
	} else {
		if after != nil {
			got, ok = vtModeMagAt(after, u)
		}
	}
	vt.Assert(ok == inside, "mode-cut-keeps-the-support")
	if ok && inside {
		vt.Assert(got == want, "mode-cut-keeps-the-function")
	}
	vt.Assert(proto.Equal(m, snap), "arguments-not-modified")
	vt.Reach("done")
}
