//go:build verif

package segmentpb

import (
	"time"

	"google.golang.org/protobuf/proto"
	"google.golang.org/protobuf/types/known/durationpb"

	"github.com/smart-core-os/sc-api/go/traits"
	"github.com/smart-core-os/sc-golang/internal/vt"
)

type Seg = traits.ElectricMode_Segment

var vtS = []string{"s0", "s1", "s2", "s3", "s4"}

const vtMaxLen = time.Duration(1) << 40 // per-segment length bound so that sums cannot wrap

// vtSegments: 0..n segments, integer magnitudes, lengths in [0, 2^40) ns (zero length allowed), the last one may be infinite.
func vtSegments(name string, max int) []*Seg {
	n := vt.Choose(name+".n", max+1)
	out := make([]*Seg, n)
	for i := 0; i < n; i++ {
		s := &Seg{Magnitude: vt.IntF(name + "." + vtS[i] + ".mag")}
		if i == n-1 && vt.Choose(name+".lastInfinite", 2) == 1 {
			// infinite
		} else {
			l := vt.Dur(name + "." + vtS[i] + ".len")
			vt.Assume(vt.And(l >= 0, l < vtMaxLen))
			s.Length = durationpb.New(l)
		}
		out[i] = s
	}
	return out
}

// vtMagAt is the meaning of a segment list as a step function of time: the magnitude at t and whether t is inside the list.
func vtMagAt(segs []*Seg, t time.Duration) (float32, bool) {
	if t < 0 {
		return 0, false
	}
	var start time.Duration
	for _, s := range segs {
		if s.Length == nil {
			return s.Magnitude, true
		}
		end := start + s.Length.AsDuration()
		if t < end {
			return s.Magnitude, true
		}
		start = end
	}
	return 0, false
}

func vtSnapshot(segs []*Seg) []proto.Message {
	out := make([]proto.Message, len(segs))
	for i, s := range segs {
		out[i] = proto.Clone(s)
	}
	return out
}

func vtUnchanged(segs []*Seg, snap []proto.Message, label string) {
	for i, s := range segs {
		vt.Assert(proto.Equal(s, snap[i]), label)
	}
}

func vtTime(name string) time.Duration {
	t := vt.Dur(name)
	vt.Assume(vt.And(t > -(time.Duration(1)<<44), t < time.Duration(1)<<44))
	return t
}

// ActiveAt / MagnitudeAt agree with the step function at every instant; Duration is the total length.
func VT_C18_ActiveMagnitudeDuration() {
	segs := vtSegments("a", vt.Bound("segments", 3, 4))
	snap := vtSnapshot(segs)
	t := vtTime("t")
	want, inside := vtMagAt(segs, t)
	got, ok := MagnitudeAt(t, segs...)
	vt.Assert(ok == inside, "magnitude-at-defined-iff-inside")
	if ok && inside {
		vt.Assert(got == want, "magnitude-at-is-the-step-function")
	}
	elapsed, idx := ActiveAt(t, segs...)
	if t >= 0 {
		vt.Assert((idx < len(segs)) == inside, "active-at-index-inside-iff-instant-inside")
		if idx < len(segs) {
			vt.Assert(segs[idx].Magnitude == want, "active-at-selects-the-active-segment")
			vt.Assert(elapsed <= t, "active-segment-starts-at-or-before-the-instant")
		}
	}
	total, infinite := Duration(segs...)
	var sum time.Duration
	inf := false
	for _, s := range segs {
		if s.Length == nil {
			inf = true
			break
		}
		sum += s.Length.AsDuration()
	}
	vt.Assert(vt.And(total == sum, infinite == inf), "duration-is-total-length")
	vtUnchanged(segs, snap, "arguments-not-modified")
	vt.Reach("done")
}

// Cut splits one segment at d without changing the function.
func VT_C18_Cut() {
	s := vtSegments("a", 1)
	if len(s) == 0 {
		return
	}
	seg := s[0]
	snap := proto.Clone(seg)
	d := vtTime("d")
	before, after, outside := Cut(d, seg)
	t := vtTime("t")
	want, inside := vtMagAt([]*Seg{seg}, t)
	// the function of [before, after] (skipping nil parts) equals the original one
	var parts []*Seg
	if before != nil {
		parts = append(parts, before)
	}
	if after != nil {
		parts = append(parts, after)
	}
	got, ok := vtMagAt(parts, t)
	vt.Assert(ok == inside, "cut-keeps-the-support")
	if ok && inside {
		vt.Assert(got == want, "cut-keeps-the-function")
	}
	if !outside && d > 0 {
		vt.Assert(vt.And(before != nil, after != nil), "inside-cut-yields-two-parts")
		if before != nil && before.Length != nil {
			vt.Assert(before.Length.AsDuration() == d, "first-part-ends-at-the-cut")
		}
	}
	vt.Assert(proto.Equal(seg, snap), "arguments-not-modified")
	vt.Reach("done")
}

// Shift(d) is translation by d: shifted(u + d) == original(u) for every instant u with u + d >= 0.
func VT_C18_Shift() {
	segs := vtSegments("a", vt.Bound("shiftSegments", 2, 3))
	snap := vtSnapshot(segs)
	d := vtTime("d")
	out := Shift(d, segs...)
	u := vtTime("u") // an instant of the original timeline
	vt.Assume(u+d >= 0)
	want, inside := vtMagAt(segs, u)
	if u < 0 {
		// before the original start: the shifted function is 0 there (a zero-magnitude filler) - or undefined if the list is empty
		want, inside = 0, len(segs) > 0
	}
	got, ok := vtMagAt(out, u+d)
	if inside {
		vt.Assert(ok, "shift-keeps-the-support")
		if ok {
			vt.Assert(got == want, "shift-is-translation")
		}
	} else {
		vt.Assert(vt.Or(!ok, got == 0), "shift-adds-no-power-outside-the-support")
	}
	vtUnchanged(segs, snap, "arguments-not-modified")
	vt.Reach("done")
}

// Max / MaxAfter select a segment of positive length with the greatest magnitude (after d).
func VT_C18_Max() {
	segs := vtSegments("a", vt.Bound("segments", 3, 4))
	snap := vtSnapshot(segs)
	i := Max(segs...)
	anyPositive := false
	for _, s := range segs {
		if s.Length == nil || s.Length.AsDuration() > 0 {
			anyPositive = true
		}
	}
	vt.Assert((i < len(segs)) == anyPositive, "max-found-iff-some-segment-has-positive-length")
	if i < len(segs) {
		vt.Assert(vt.Or(segs[i].Length == nil, segs[i].Length.AsDuration() > 0), "max-segment-has-positive-length")
		for _, s := range segs {
			if s.Length == nil || s.Length.AsDuration() > 0 {
				vt.Assert(s.Magnitude <= segs[i].Magnitude, "max-is-greatest")
			}
		}
		vt.Assert(MaxMagnitude(segs...) == segs[i].Magnitude, "max-magnitude-agrees-with-max")
	}
	vtUnchanged(segs, snap, "arguments-not-modified")
	vt.Reach("done")
}

// Sum of k lists is pointwise addition: sum(t) == Σ list_i(t) at every instant t >= 0 (a list contributes 0 outside itself).
func VT_C18_Sum() {
	k := vt.Bound("sumLists", 2, 2)
	lists := make([][]*Seg, k)
	var snaps [][]proto.Message
	names := []string{"a", "b", "c"}
	for i := 0; i < k; i++ {
		max := 2
		if i > 0 {
			max = vt.Bound("sumSegmentsOther", 1, 2)
		}
		lists[i] = vtSegments(names[i], max)
		for _, s := range lists[i] {
			vt.Assume(s.Magnitude >= 0) // loads: Sum drops a trailing infinite segment of non-positive magnitude by design
		}
		snaps = append(snaps, vtSnapshot(lists[i]))
	}
	out := Sum(lists...)
	t := vtTime("t")
	vt.Assume(t >= 0)
	var want float32
	for i := 0; i < k; i++ {
		m, ok := vtMagAt(lists[i], t)
		if ok {
			want += m
		}
	}
	got, ok := vtMagAt(out, t)
	if !ok {
		got = 0
	}
	vt.Assert(got == want, "sum-is-pointwise-addition")
	for i := 0; i < k; i++ {
		vtUnchanged(lists[i], snaps[i], "arguments-not-modified")
	}
	vt.Reach("done")
}
