//go:build verif

package resource

import (
	"context"
	"sync"

	"github.com/smart-core-os/sc-api/go/types"
	"github.com/smart-core-os/sc-golang/internal/testproto"
	"github.com/smart-core-os/sc-golang/internal/verifhook"
	"github.com/smart-core-os/sc-golang/internal/vt"
)

type T3 = testproto.TestAllTypes

const vtSentinel = int32(-99)

// A backpressured Value subscription opened at an arbitrary moment relative to W concurrent writers, reader keeps
// receiving: the last value delivered before the sentinel write is the final value (nothing missed around the moment
// of subscribing, no event overtakes a later commit).
func vtValueConverge(writers, writesEach int, label string) {
	v := NewValue(WithInitialValue(&T3{DefaultInt32: 100}))
	var wg sync.WaitGroup
	for w := 0; w < writers; w++ {
		w := w
		wg.Add(1)
		go func() {
			defer wg.Done()
			for i := 0; i < writesEach; i++ {
				v.Set(&T3{DefaultInt32: int32(10*(w+1) + i)})
			}
		}()
	}
	ctx, cancel := context.WithCancel(context.Background())
	ch := v.Pull(ctx, WithBackpressure(true)) // placed anywhere relative to the writers by the scheduler
	var last int32
	n := 0
	seen := make(chan struct{})
	go func() {
		for e := range ch {
			x := e.Value.(*T3).DefaultInt32
			if x == vtSentinel {
				close(seen)
				continue
			}
			last = x
			n++
		}
	}()
	wg.Wait()
	final := v.Get().(*T3).DefaultInt32
	v.Set(&T3{DefaultInt32: vtSentinel})
	<-seen
	vt.Assert(n >= 1, "subscriber-received-at-least-the-seed")
	if writers > 1 {
		vt.AssertKF(last == final, label, "KF-C03-1", true)
	} else {
		vt.Assert(last == final, label)
	}
	cancel()
	vt.Reach("done")
}

func VT_C03_ValueOneWriter() { vtValueConverge(1, 2, "last-delivered-value-is-the-final-value") }

// thorough: two writers, subscription opened at an arbitrary moment
func VT_C03_ValueTwoWriters_T() {
	vtValueConverge(2, 1, "last-delivered-value-is-the-final-value-two-writers")
}

// quick: two writers started after the subscription is established and seeded (fewer interleavings; the commit /
// publication reordering of KF-C03-1 does not depend on where the subscription starts)
func VT_C03_ValueTwoWriters() {
	v := NewValue(WithInitialValue(&T3{DefaultInt32: 100}))
	ctx, cancel := context.WithCancel(context.Background())
	ch := v.Pull(ctx, WithBackpressure(true))
	<-ch // seed
	var last int32
	seen := make(chan struct{})
	go func() {
		for e := range ch {
			x := e.Value.(*T3).DefaultInt32
			if x == vtSentinel {
				close(seen)
				continue
			}
			last = x
		}
	}()
	var wg sync.WaitGroup
	for w := 0; w < 2; w++ {
		w := w
		wg.Add(1)
		go func() {
			defer wg.Done()
			v.Set(&T3{DefaultInt32: int32(10 * (w + 1))})
		}()
	}
	wg.Wait()
	final := v.Get().(*T3).DefaultInt32
	v.Set(&T3{DefaultInt32: vtSentinel})
	<-seen
	vt.AssertKF(last == final, "last-delivered-value-is-the-final-value-two-writers", "KF-C03-1", true)
	cancel()
	vt.Reach("done")
}

// Without backpressure (lossy delivery) and one writer: the subscriber eventually holds the final value
// (the harness blocks forever - a reported deadlock - if the final value never becomes the latest delivered one).
func VT_C03_ValueLossyEventuallyFinal() {
	v := NewValue(WithInitialValue(&T3{DefaultInt32: 100}))
	var wg sync.WaitGroup
	wg.Add(1)
	go func() {
		defer wg.Done()
		v.Set(&T3{DefaultInt32: 11})
		v.Set(&T3{DefaultInt32: 12})
	}()
	ctx, cancel := context.WithCancel(context.Background())
	ch := v.Pull(ctx)
	var mu sync.Mutex
	var last int32
	tick := make(chan struct{}, 8)
	go func() {
		for e := range ch {
			mu.Lock()
			last = e.Value.(*T3).DefaultInt32
			mu.Unlock()
			tick <- struct{}{}
		}
	}()
	wg.Wait()
	final := v.Get().(*T3).DefaultInt32
	for {
		mu.Lock()
		l := last
		mu.Unlock()
		if l == final {
			break
		}
		<-tick
	}
	cancel()
	vt.Reach("done")
}

// A Collection subscription opened at an arbitrary moment relative to one writer (add, update, remove, add another):
// the folded view equals List once the writer has stopped.
func VT_C03_CollectionOneWriter() {
	c := NewCollection(WithInitialRecord("a", &T3{DefaultInt32: 1}))
	// lossy delivery merges changes per id but never drops a final state, so the fold must converge in both modes
	bp := vt.Choose("backpressure", 2) == 1
	var wg sync.WaitGroup
	wg.Add(1)
	go func() {
		defer wg.Done()
		c.Update("a", &T3{DefaultInt32: 2})
		c.Add("b", &T3{DefaultInt32: 3})
		if vt.Choose("deleteA", 2) == 1 {
			c.Delete("a")
		}
	}()
	ctx, cancel := context.WithCancel(context.Background())
	ch := c.Pull(ctx, WithBackpressure(bp))
	view := map[string]int32{}
	seen := make(chan struct{})
	go func() {
		for e := range ch {
			if e.Id == "z" {
				close(seen)
				continue
			}
			switch e.ChangeType {
			case types.ChangeType_REMOVE:
				delete(view, e.Id)
			default:
				view[e.Id] = e.NewValue.(*T3).DefaultInt32
			}
		}
	}()
	wg.Wait()
	list := c.List()
	c.Add("z", &T3{DefaultInt32: vtSentinel})
	<-seen
	vt.Assert(len(view) == len(list), "view-has-exactly-the-listed-items")
	for _, m := range list {
		x := m.(*T3).DefaultInt32
		found := false
		for _, vv := range view {
			if vv == x {
				found = true
			}
		}
		vt.Assert(found, "every-listed-item-is-in-the-view-with-its-value")
	}
	cancel()
	vt.Reach("done")
}

// One id removed, re-added and removed again (then another id added) by one writer while a subscriber without
// backpressure receives at the scheduler's pace: merged changes (remove+add = replace, replace+remove = remove, ...)
// folded in order still end as List.
func VT_C03_CollectionChurnOneId() {
	c := NewCollection(WithInitialRecord("a", &T3{DefaultInt32: 1}))
	// subscribed before the writer starts: this harness is about what the merge stage does to a long run of changes
	// (the moment of subscribing is the subject of the other harnesses)
	ctx, cancel := context.WithCancel(context.Background())
	ch := c.Pull(ctx)
	var wg sync.WaitGroup
	wg.Add(1)
	endsPresent := vt.Choose("endsPresent", 2) == 1
	go func() {
		defer wg.Done()
		c.Delete("a")
		c.Add("a", &T3{DefaultInt32: 2})
		c.Delete("a")
		if endsPresent {
			c.Add("a", &T3{DefaultInt32: 4})
		}
		c.Add("b", &T3{DefaultInt32: 3})
	}()
	view := map[string]int32{}
	seen := make(chan struct{})
	go func() {
		for e := range ch {
			if e.Id == "z" {
				close(seen)
				continue
			}
			switch e.ChangeType {
			case types.ChangeType_REMOVE:
				vt.Assert(e.NewValue == nil, "remove-carries-no-new-value")
				delete(view, e.Id)
			default:
				vt.Assert(e.NewValue != nil, "add-update-replace-carry-a-new-value")
				if e.NewValue != nil {
					view[e.Id] = e.NewValue.(*T3).DefaultInt32
				}
			}
		}
	}()
	wg.Wait()
	list := c.List()
	c.Add("z", &T3{DefaultInt32: vtSentinel})
	<-seen
	vt.Assert(len(view) == len(list), "view-has-exactly-the-listed-items")
	_, hasA := view["a"]
	vt.Assert(hasA == endsPresent, "churned-id-in-view-iff-stored")
	if endsPresent && hasA {
		vt.Assert(view["a"] == 4, "churned-id-has-its-final-value")
	}
	vt.Assert(view["b"] == 3, "other-id-in-view")
	cancel()
	vt.Reach("done")
}

// A Value with an equivalence (exact or none) that is moved away from and back to the value the subscriber was seeded
// with: the last event delivered before the sentinel is the final value (the write back is not mistaken for a duplicate).
func VT_C03_ValueReturnsToSeededValue() {
	var opts []Option
	if vt.Choose("noDuplicates", 2) == 1 {
		opts = append(opts, WithNoDuplicates())
	}
	a, b := vt.Int32("a"), vt.Int32("b")
	vt.Assume(vt.And(a != vtSentinel, b != vtSentinel))
	v := NewValue(append(opts, WithInitialValue(&T3{DefaultInt32: a}))...)
	ctx, cancel := context.WithCancel(context.Background())
	ch := v.Pull(ctx, WithBackpressure(vt.Choose("backpressure", 2) == 1))
	var last int32
	n := 0
	seen := make(chan struct{})
	go func() {
		for e := range ch {
			x := e.Value.(*T3).DefaultInt32
			if x == vtSentinel {
				close(seen)
				continue
			}
			last = x
			n++
		}
	}()
	v.Set(&T3{DefaultInt32: b})
	vt.Settle() // the reader keeps up: b is delivered (when it differs) before the write back
	v.Set(&T3{DefaultInt32: a})
	vt.Settle()
	v.Set(&T3{DefaultInt32: vtSentinel})
	<-seen
	vt.Assert(last == a, "last-delivered-value-is-the-final-value-after-returning-to-the-seeded-one")
	cancel()
	vt.Reach("done")
}

// A Delete and an Add of the same id by two writers, subscriber with backpressure that keeps receiving, subscribed
// at any moment: no event overtakes a later commit (the REMOVE never arrives after the ADD of the re-created item).
func VT_C03_CollectionDeleteVsAdd() {
	c := NewCollection(WithInitialRecord("a", &T3{DefaultInt32: 1}))
	var wg sync.WaitGroup
	wg.Add(2)
	go func() { defer wg.Done(); c.Delete("a") }()
	go func() { defer wg.Done(); c.Add("a", &T3{DefaultInt32: 5}) }()
	ctx, cancel := context.WithCancel(context.Background())
	ch := c.Pull(ctx, WithBackpressure(true))
	view := map[string]int32{}
	seen := make(chan struct{})
	go func() {
		for e := range ch {
			if e.Id == "z" {
				close(seen)
				continue
			}
			switch e.ChangeType {
			case types.ChangeType_REMOVE:
				delete(view, e.Id)
			default:
				view[e.Id] = e.NewValue.(*T3).DefaultInt32
			}
		}
	}()
	wg.Wait()
	got, ok := c.Get("a")
	c.Add("z", &T3{DefaultInt32: vtSentinel})
	<-seen
	v, inView := view["a"]
	vt.Assert(inView == ok, "view-has-the-item-iff-the-store-has")
	if ok && inView {
		vt.Assert(v == got.(*T3).DefaultInt32, "view-has-the-stored-value")
	}
	cancel()
	vt.Reach("done")
}

// A Collection subscription (no backpressure) opened exactly between the commit of an Add and the publication of its
// event (window forced through the Collection.Update:before-publish hook), with a reader that only starts receiving
// once the writer has stopped: the folded view equals List.
// Known finding KF-C03-2: the seed already holds the item, its ADD event arrives afterwards, and a later REMOVE is
// merged with that ADD into nothing, so the view keeps an item that no longer exists.
func VT_C03_SubscribeBetweenCommitAndPublish() {
	c := NewCollection()
	ctx, cancel := context.WithCancel(context.Background())
	defer cancel()
	var ch <-chan *CollectionChange
	prev := verifhook.Hook
	defer func() { verifhook.Hook = prev }()
	verifhook.Hook = func(point string) {
		if point == "Collection.Update:before-publish" && ch == nil {
			ch = c.Pull(ctx)
		}
	}
	c.Add("a", &T3{DefaultInt32: 2})
	second := vt.Choose("second", 3)
	switch second {
	case 0:
		c.Delete("a")
	case 1:
		c.Update("a", &T3{DefaultInt32: 5})
	}
	list := c.List()
	c.Add("z", &T3{DefaultInt32: vtSentinel})
	view := map[string]int32{}
	for e := range ch {
		if e.Id == "z" {
			break
		}
		switch e.ChangeType {
		case types.ChangeType_REMOVE:
			delete(view, e.Id)
		default:
			view[e.Id] = e.NewValue.(*T3).DefaultInt32
		}
	}
	vt.AssertKF(len(view) == len(list), "view-has-exactly-the-listed-items-subscribe-between-commit-and-publish", "KF-C03-2", second == 0)
	for _, m := range list {
		vt.Assert(view["a"] == m.(*T3).DefaultInt32, "listed-item-is-in-the-view-with-its-value")
	}
	vt.Reach("done")
}

// A subscription opened while a write is being published and a previously cancelled subscription is being cleaned
// up still converges: it receives the next write.
func VT_C03_SubscribeDuringPublishAfterCancel_T() { vtSubscribeDuringPublish(true) }

// quick variant: the cancelled subscription is a bare bus listener (fewer goroutines to interleave)
func VT_C03_SubscribeDuringPublishAfterCancel() { vtSubscribeDuringPublish(false) }

func vtSubscribeDuringPublish(fullPull bool) {
	v := NewValue(WithInitialValue(&T3{DefaultInt32: 100}))
	gctx, gcancel := context.WithCancel(context.Background())
	if fullPull {
		_ = v.Pull(gctx, WithBackpressure(true))
	} else {
		_ = v.bus.Listen(gctx)
	}
	gcancel() // cancelled, not yet removed from the bus
	ctx, cancel := context.WithCancel(context.Background())
	var wg sync.WaitGroup
	wg.Add(2)
	go func() { defer wg.Done(); v.Set(&T3{DefaultInt32: 11}) }()
	var last int32
	seen := make(chan struct{})
	go func() {
		defer wg.Done()
		ch := v.Pull(ctx, WithBackpressure(true))
		go func() {
			for e := range ch {
				x := e.Value.(*T3).DefaultInt32
				if x == vtSentinel {
					close(seen)
					continue
				}
				last = x
			}
		}()
	}()
	wg.Wait()
	final := v.Get().(*T3).DefaultInt32
	v.Set(&T3{DefaultInt32: vtSentinel})
	<-seen // blocks forever (reported as a deadlock) if the subscription was lost
	vt.Assert(last == final, "late-subscriber-view-converges")
	cancel()
	vt.Reach("done")
}
