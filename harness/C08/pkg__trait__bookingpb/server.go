//go:build verif

package bookingpb

import (
	"context"
	"sync"

	"google.golang.org/protobuf/types/known/timestamppb"

	"github.com/smart-core-os/sc-api/go/traits"
	"github.com/smart-core-os/sc-api/go/types"
	timepb "github.com/smart-core-os/sc-api/go/types/time"
	"github.com/smart-core-os/sc-golang/internal/vt"
)

type vtPullServer struct {
	traits.BookingApi_PullBookingsServer // the methods not driven by the harness
	ctx                                  context.Context
	mu                                   sync.Mutex
	got                                  []*traits.PullBookingsResponse_Change
}

func (s *vtPullServer) Context() context.Context { return s.ctx }
func (s *vtPullServer) Send(r *traits.PullBookingsResponse) error {
	s.mu.Lock()
	defer s.mu.Unlock()
	s.got = append(s.got, r.Changes...)
	return nil
}

func vtTS(sec int64) *timestamppb.Timestamp { return &timestamppb.Timestamp{Seconds: sec} }

// The booking server's booking_intersects filter: the folded PullBookings stream equals ListBookings for the same
// request (no period, the unbounded period, a bounded and a half-bounded one), with bookings that have and lack a
// booked period, across updates that keep, start and stop matching.
func VT_C08_BookingServerPullMatchesList() {
	m := NewModel()
	srv := NewModelServer(m)
	m.CreateBooking(&traits.Booking{Id: "b1", Bookable: "room", Booked: &timepb.Period{StartTime: vtTS(10), EndTime: vtTS(20)}})
	m.CreateBooking(&traits.Booking{Id: "b2", Bookable: "room"}) // never booked: intersects nothing
	periods := []*timepb.Period{nil, {}, {StartTime: vtTS(5), EndTime: vtTS(15)}, {StartTime: vtTS(30)}}
	req := &traits.ListBookingsRequest{Name: "dev", BookingIntersects: periods[vt.Choose("period", len(periods))]}
	ctx, cancel := context.WithCancel(context.Background())
	stream := &vtPullServer{ctx: ctx}
	done := make(chan struct{})
	go func() {
		defer close(done)
		srv.PullBookings(req, stream)
	}()
	vt.Settle() // seeded
	switch vt.Choose("write", 3) {
	case 0: // a booking that matches neither before nor after (or both, without a filter)
		m.UpdateBooking(&traits.Booking{Id: "b2", Title: "renamed"})
	case 1: // b1 moves to a later time
		m.UpdateBooking(&traits.Booking{Id: "b1", Bookable: "room", Booked: &timepb.Period{StartTime: vtTS(40), EndTime: vtTS(50)}})
	case 2: // b2 gets booked
		m.UpdateBooking(&traits.Booking{Id: "b2", Bookable: "room", Booked: &timepb.Period{StartTime: vtTS(12), EndTime: vtTS(14)}})
	}
	vt.Settle()
	cancel()
	<-done
	view := map[string]bool{}
	stream.mu.Lock()
	for _, c := range stream.got {
		switch c.Type {
		case types.ChangeType_REMOVE:
			delete(view, c.OldValue.GetId())
		default:
			view[c.NewValue.GetId()] = true
		}
	}
	stream.mu.Unlock()
	list, err := srv.ListBookings(context.Background(), req)
	vt.Assert(err == nil, "list-succeeds")
	if err != nil {
		return
	}
	vt.Assert(len(view) == len(list.Bookings), "folded-pull-has-exactly-the-listed-bookings")
	for _, b := range list.Bookings {
		vt.Assert(view[b.Id], "every-listed-booking-is-in-the-folded-pull")
	}
	vt.Reach("done")
}
