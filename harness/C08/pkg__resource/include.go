//go:build verif

package resource

import (
	"google.golang.org/protobuf/proto"

	"github.com/smart-core-os/sc-api/go/types"
	"github.com/smart-core-os/sc-golang/internal/vt"
)

// vtPred is an uninterpreted predicate over (id, value): the check quantifies over every predicate,
// including those that are true for absent (nil) values.
func vtPred(id string, m proto.Message) bool {
	return vt.UFBool("P", id, vt.MsgID(m))
}

// One arbitrary change, consistent with some view of the collection, pushed through include().
// Membership in the *filtered* collection before/after decides what must be delivered.
func VT_C08_Include() {
	id := vt.Str("id")
	kind := vt.Choose("kind", 4) // 0 ADD, 1 UPDATE, 2 REMOVE, 3 REPLACE
	var oldV, newV proto.Message
	ct := types.ChangeType_ADD
	switch kind {
	case 0:
		newV = vt.Msg("new")
	case 1:
		ct = types.ChangeType_UPDATE
		oldV, newV = vt.Msg("old"), vt.Msg("new")
	case 2:
		ct = types.ChangeType_REMOVE
		oldV = vt.Msg("old")
	case 3:
		ct = types.ChangeType_REPLACE
		oldV, newV = vt.Msg("old"), vt.Msg("new")
	}
	seed := vt.Bool("seed")
	c := &CollectionChange{Id: id, ChangeType: ct, OldValue: oldV, NewValue: newV, ChangeTime: vt.Time("t"), SeedValue: seed}
	in0 := false
	if oldV != nil {
		in0 = vtPred(id, oldV)
	}
	in1 := false
	if newV != nil {
		in1 = vtPred(id, newV)
	}
	out, ok := c.include(vtPred)
	vt.Observe("ok", ok)
	switch {
	case !in0 && !in1:
		vt.Assert(!ok, "neither-matches-not-delivered")
	case !in0 && in1:
		vt.Assert(ok, "starts-matching-delivered")
		if ok {
			vt.Assert(out.ChangeType == types.ChangeType_ADD, "starts-matching-is-ADD")
			vt.Assert(out.NewValue == newV, "starts-matching-new-value")
			vt.Assert(out.OldValue == nil, "starts-matching-no-old-value")
			vt.Assert(out.Id == id, "starts-matching-id")
			vt.Assert(out.ChangeTime == c.ChangeTime, "starts-matching-time")
		}
	case in0 && !in1:
		vt.Assert(ok, "stops-matching-delivered")
		if ok {
			vt.Assert(out.ChangeType == types.ChangeType_REMOVE, "stops-matching-is-REMOVE")
			vt.Assert(out.OldValue == oldV, "stops-matching-old-value")
			vt.Assert(out.NewValue == nil, "stops-matching-no-new-value")
			vt.Assert(out.Id == id, "stops-matching-id")
		}
	default:
		vt.Assert(ok, "both-match-delivered")
		if ok {
			vt.Assert(out.ChangeType == ct, "both-match-kind-kept")
			vt.Assert(vt.And(out.OldValue == oldV, out.NewValue == newV), "both-match-values-kept")
			vt.Assert(out.Id == id, "both-match-id")
		}
	}
	// the change is shared by every subscriber of the collection: rewriting it for one predicate must not alter it
	vt.Assert(vt.And(c.Id == id, c.ChangeType == ct, c.OldValue == oldV, c.NewValue == newV, c.SeedValue == seed, !c.LastSeedValue),
		"include-does-not-alter-the-shared-change")
	vt.Reach("done")
}

// No predicate: every change passes unchanged.
func VT_C08_IncludeNil() {
	c := &CollectionChange{Id: vt.Str("id"), ChangeType: types.ChangeType_UPDATE, OldValue: vt.Msg("old"), NewValue: vt.Msg("new")}
	out, ok := c.include(nil)
	vt.Assert(vt.And(ok, out == c), "nil-predicate-passes-through")
	vt.Reach("done")
}

// Exclude is the negation of the predicate; no predicate excludes nothing.
func VT_C08_Exclude() {
	id, m := vt.Str("id"), vt.Msg("m")
	rr := ComputeReadConfig(WithInclude(vtPred))
	vt.Assert(rr.Exclude(id, m) == !vtPred(id, m), "exclude-is-not-include")
	rr0 := ComputeReadConfig()
	vt.Assert(!rr0.Exclude(id, m), "no-predicate-excludes-nothing")
	vt.Reach("done")
}
