//go:build verif

package resource

import (
	"context"
	"sync"

	"google.golang.org/protobuf/proto"

	"github.com/smart-core-os/sc-api/go/types"
	"github.com/smart-core-os/sc-golang/internal/testproto"
	"github.com/smart-core-os/sc-golang/internal/vt"
)

type T8 = testproto.TestAllTypes

// vtMatches is the include predicate of the stream harnesses: items with a positive value are part of the filtered collection.
func vtMatches(_ string, m proto.Message) bool {
	if m == nil {
		return false
	}
	return m.(*T8).DefaultInt32 > 0
}

// List with a predicate returns exactly the matching items (seed of the filtered collection), sorted by id.
func VT_C08_ListInclude() {
	vals := []int32{vt.Int32("a"), vt.Int32("b"), vt.Int32("c")}
	c := NewCollection(WithInitialRecord("a", &T8{DefaultInt32: vals[0]}), WithInitialRecord("b", &T8{DefaultInt32: vals[1]}), WithInitialRecord("c", &T8{DefaultInt32: vals[2]}))
	list := c.List(WithInclude(vtMatches))
	want := 0
	for _, v := range vals {
		if v > 0 {
			want++
		}
	}
	vt.Assert(len(list) == want, "list-has-exactly-the-matching-items")
	k := 0
	for _, v := range vals {
		if v > 0 && k < len(list) {
			vt.Assert(list[k].(*T8).DefaultInt32 == v, "list-items-are-the-matching-ones-in-id-order")
			k++
		}
	}
	vt.Reach("done")
}

// Pull with a predicate, reader at any pace, one writer (value changes that start/stop matching, then a remove):
// folding the filtered stream yields List with the same predicate, with and without backpressure.
func VT_C08_PullFoldMatchesList() {
	v0 := vt.Int32("v0")
	c := NewCollection(WithInitialRecord("a", &T8{DefaultInt32: v0}))
	bp := vt.Choose("backpressure", 2) == 1
	ctx, cancel := context.WithCancel(context.Background())
	ch := c.Pull(ctx, WithInclude(vtMatches), WithBackpressure(bp))
	view := map[string]int32{}
	seen := make(chan struct{})
	go func() {
		for e := range ch {
			if e.Id == "z" {
				close(seen)
				continue
			}
			switch e.ChangeType {
			case types.ChangeType_REMOVE:
				delete(view, e.Id)
			default:
				view[e.Id] = e.NewValue.(*T8).DefaultInt32
			}
		}
	}()
	var wg sync.WaitGroup
	wg.Add(1)
	go func() {
		defer wg.Done()
		c.Update("a", &T8{DefaultInt32: vt.Int32("v1")})
		if vt.Choose("thenDelete", 2) == 1 {
			c.Delete("a")
		} else {
			c.Update("a", &T8{DefaultInt32: vt.Int32("v2")})
		}
	}()
	wg.Wait()
	list := c.List(WithInclude(vtMatches))
	c.Add("z", &T8{DefaultInt32: 1}) // sentinel, always matching
	<-seen
	vt.Assert(len(view) == len(list), "folded-filtered-stream-has-the-items-of-the-filtered-list")
	for _, m := range list {
		got, ok := view["a"]
		vt.Assert(vt.And(ok, got == m.(*T8).DefaultInt32), "folded-filtered-stream-has-the-values-of-the-filtered-list")
	}
	cancel()
	vt.Reach("done")
}

// Two backpressured subscribers of one collection with different predicates (positive values / every value) and one
// writer: each folded stream equals List with its own predicate (a rewrite done for one predicate is not seen by the other).
func VT_C08_TwoPredicates() {
	v0 := vt.Int32("v0")
	c := NewCollection(WithInitialRecord("a", &T8{DefaultInt32: v0}))
	ctx, cancel := context.WithCancel(context.Background())
	preds := []FilterFunc{vtMatches, func(string, proto.Message) bool { return true }}
	views := []map[string]int32{{}, {}}
	seen := []chan struct{}{make(chan struct{}), make(chan struct{})}
	for i := 0; i < 2; i++ {
		i := i
		ch := c.Pull(ctx, WithInclude(preds[i]), WithBackpressure(true))
		go func() {
			for e := range ch {
				if e.Id == "z" {
					close(seen[i])
					continue
				}
				switch e.ChangeType {
				case types.ChangeType_REMOVE:
					delete(views[i], e.Id)
				default:
					vt.Assert(e.NewValue != nil, "add-update-carry-a-new-value")
					if e.NewValue != nil {
						views[i][e.Id] = e.NewValue.(*T8).DefaultInt32
					}
				}
			}
		}()
	}
	c.Update("a", &T8{DefaultInt32: vt.Int32("v1")})
	c.Add("z", &T8{DefaultInt32: 1}) // sentinel, matches both
	<-seen[0]
	<-seen[1]
	for i := 0; i < 2; i++ {
		list := c.List(WithInclude(preds[i]))
		// list holds "z" and possibly "a"
		_, hasA := views[i]["a"]
		vt.Assert(hasA == (len(list) == 2), "each-subscriber-view-has-a-iff-its-filtered-list-has")
		if hasA && len(list) == 2 {
			vt.Assert(views[i]["a"] == list[0].(*T8).DefaultInt32, "each-subscriber-view-has-the-listed-value")
		}
	}
	cancel()
	vt.Reach("done")
}

// The predicate is evaluated on the stored item, not on what the read mask leaves of it: List and a folded Pull with
// WithInclude + a read mask that hides the field the predicate reads agree with the filtered, projected collection.
func VT_C08_IncludeWithReadMask() {
	v0 := vt.Int32("v0")
	c := NewCollection(WithInitialRecord("a", &T8{DefaultInt32: v0, DefaultInt64: 10}))
	bp := vt.Choose("backpressure", 2) == 1
	ctx, cancel := context.WithCancel(context.Background())
	ropts := []ReadOption{WithInclude(vtMatches), WithReadPaths(&T8{}, "default_int64")}
	ch := c.Pull(ctx, append(ropts, WithBackpressure(bp))...)
	view := map[string]int64{}
	seen := make(chan struct{})
	go func() {
		for e := range ch {
			if e.Id == "z" {
				close(seen)
				continue
			}
			switch e.ChangeType {
			case types.ChangeType_REMOVE:
				delete(view, e.Id)
			default:
				vt.Assert(e.NewValue.(*T8).DefaultInt32 == 0, "delivered-values-are-projected")
				view[e.Id] = e.NewValue.(*T8).DefaultInt64
			}
		}
	}()
	v1 := vt.Int32("v1")
	c.Update("a", &T8{DefaultInt32: v1, DefaultInt64: 11})
	vb := vt.Int32("b")
	c.Add("b", &T8{DefaultInt32: vb, DefaultInt64: 20})
	list := c.List(ropts...)
	want := map[string]int64{}
	if v1 > 0 {
		want["a"] = 11
	}
	if vb > 0 {
		want["b"] = 20
	}
	vt.Assert(len(list) == len(want), "list-has-exactly-the-items-whose-stored-value-matches")
	for _, m := range list {
		x := m.(*T8)
		vt.Assert(vt.And(x.DefaultInt32 == 0, x.DefaultInt64 == 11 || x.DefaultInt64 == 20), "listed-items-are-projected")
	}
	c.Add("z", &T8{DefaultInt32: 1}) // sentinel, always matching
	<-seen
	vt.Assert(len(view) == len(want), "folded-masked-filtered-stream-has-the-items-of-the-filtered-collection")
	for id, x := range want {
		got, ok := view[id]
		vt.Assert(vt.And(ok, got == x), "folded-masked-filtered-stream-has-their-projected-values")
	}
	cancel()
	vt.Reach("done")
}
