//go:build verif

package resource

import (
	"context"
	"sync"

	"github.com/smart-core-os/sc-golang/internal/testproto"
	"github.com/smart-core-os/sc-golang/internal/vt"
)

type T10 = testproto.TestAllTypes

// A Value subscription (any backpressure / updates-only setting) cancelled at an arbitrary moment while a writer is
// active: the channel closes, the writer is not stalled forever, nobody panics, every goroutine ends.
func VT_C10_ValuePullCancel() {
	v := NewValue(WithInitialValue(&T10{DefaultInt32: vt.Int32("init")}))
	bp := vt.Choose("backpressure", 2) == 1
	uo := vt.Choose("updatesOnly", 2) == 1
	ctx, cancel := context.WithCancel(context.Background())
	ch := v.Pull(ctx, WithBackpressure(bp), WithUpdatesOnly(uo))
	var wg sync.WaitGroup
	wg.Add(3)
	received, closed := 0, false
	stopAfter := vt.Choose("consumerStopsAfter", vt.Bound("consumerStops", 2, 2)) // the consumer may stop receiving (without cancelling) after 0,1(,2) events
	go func() { // consumer
		defer wg.Done()
		for received < stopAfter {
			_, ok := <-ch
			if !ok {
				closed = true
				return
			}
			received++
		}
		// stopped receiving; wait for the cancel, then drain until closed
		<-ctx.Done()
		for range ch {
		}
		closed = true
	}()
	writes := vt.Choose("writes", vt.Bound("valueWrites", 1, 1)) + 1
	var errs [2]error
	go func() { // writer
		defer wg.Done()
		for i := 0; i < writes; i++ {
			_, errs[i] = v.Set(&T10{DefaultInt32: int32(i + 1)})
		}
	}()
	go func() { // canceller
		defer wg.Done()
		cancel()
	}()
	wg.Wait()
	vt.Assert(closed, "channel-closed-after-cancel")
	for i := 0; i < writes; i++ {
		vt.Assert(errs[i] == nil, "writer-not-failed-by-cancelled-subscriber")
	}
	vt.Assert(v.Get().(*T10).DefaultInt32 == int32(writes), "writes-took-effect")
	vt.NoLeak()
	vt.Reach("done")
}

// Same for a Collection subscription, and a single-item subscription which also ends when its item is removed.
func VT_C10_CollectionPullCancel() {
	c := NewCollection(WithInitialRecord("a", &T10{DefaultInt32: 1}))
	bp := vt.Choose("backpressure", 2) == 1
	ctx, cancel := context.WithCancel(context.Background())
	ch := c.Pull(ctx, WithBackpressure(bp))
	var wg sync.WaitGroup
	wg.Add(3)
	closed := false
	go func() {
		defer wg.Done()
		for range ch {
		}
		closed = true
	}()
	var e1, e2 error
	go func() {
		defer wg.Done()
		_, e1 = c.Update("a", &T10{DefaultInt32: 2})
		_, e2 = c.Add("b", &T10{DefaultInt32: 3})
	}()
	go func() {
		defer wg.Done()
		cancel()
	}()
	wg.Wait()
	vt.Assert(closed, "channel-closed-after-cancel")
	vt.Assert(vt.And(e1 == nil, e2 == nil), "writer-not-failed-by-cancelled-subscriber")
	vt.Assert(len(c.List()) == 2, "writes-took-effect")
	vt.NoLeak()
	vt.Reach("done")
}

func VT_C10_PullIDEndsOnRemove() {
	c := NewCollection(WithInitialRecord("a", &T10{DefaultInt32: 1}))
	ctx, cancel := context.WithCancel(context.Background())
	defer cancel()
	ch := c.PullID(ctx, "a", WithBackpressure(true))
	done := make(chan int)
	go func() {
		n := 0
		for range ch {
			n++
		}
		done <- n
	}()
	_, e1 := c.Update("a", &T10{DefaultInt32: 2})
	_, e2 := c.Delete("a")
	n := <-done // ends without any cancel: the item was removed
	vt.Assert(vt.And(e1 == nil, e2 == nil), "writes-succeed")
	vt.Assert(n == 2, "single-item-subscription-saw-seed-and-update")
	cancel()
	vt.NoLeak()
	vt.Reach("done")
}

// Subscriptions (Pull and PullID) opened while a writer is active, then cancelled: nobody deadlocks, the writer is not
// stalled beyond the cancel, the channels close and every goroutine ends.
func VT_C10_SubscribeWhileWriting() {
	c := NewCollection(WithInitialRecord("a", &T10{DefaultInt32: 1}))
	var wg sync.WaitGroup
	wg.Add(1)
	var e1 error
	go func() {
		defer wg.Done()
		_, e1 = c.Update("a", &T10{DefaultInt32: 2})
	}()
	ctx, cancel := context.WithCancel(context.Background())
	var ch1 <-chan *CollectionChange
	var ch2 <-chan *ValueChange
	if vt.Choose("pullID", vt.Bound("pullIDToo", 1, 2)) == 1 {
		ch2 = c.PullID(ctx, "a")
	} else {
		ch1 = c.Pull(ctx)
	}
	cancel()
	wg.Wait()
	if ch1 != nil {
		for range ch1 {
		}
	} else {
		for range ch2 {
		}
	}
	vt.Assert(e1 == nil, "writer-not-failed-by-a-subscription-opened-meanwhile")
	_, ok := c.Get("a")
	vt.Assert(ok, "collection-still-readable")
	vt.NoLeak()
	vt.Reach("done")
}
