//go:build verif

package minibus

import (
	"context"
	"sync"

	"google.golang.org/protobuf/proto"

	"github.com/smart-core-os/sc-golang/internal/vt"
)

var vtL = []string{"l0", "l1", "l2"}
var vtE = []string{"e0", "e1", "e2"}

// L listeners (one of which is cancelled by a separate goroutine at an arbitrary moment), one sender sending K
// events: no panic, no deadlock, every goroutine ends, live listeners get every event exactly once in order,
// a cancelled listener gets a duplicate-free prefix and its channel is closed.
func VT_C10_BusCancel() {
	nl := vt.Choose("listeners", vt.Bound("listeners", 2, 3)) + 1
	k := vt.Choose("events", 2) + 1
	var b Bus
	events := make([]any, k)
	ids := make([]int64, k)
	for i := range events {
		m := vt.Msg(vtE[i])
		events[i] = m
		ids[i] = vt.MsgID(m)
		for j := 0; j < i; j++ {
			vt.Assume(ids[j] != ids[i])
		}
	}
	cancels := make([]context.CancelFunc, nl)
	got := make([][]int64, nl)
	closed := make([]bool, nl)
	var consumers sync.WaitGroup
	for i := 0; i < nl; i++ {
		i := i
		ctx, cancel := context.WithCancel(context.Background())
		cancels[i] = cancel
		ch := b.Listen(ctx)
		consumers.Add(1)
		go func() {
			defer consumers.Done()
			for e := range ch {
				got[i] = append(got[i], vt.MsgID(e.(proto.Message)))
			}
			closed[i] = true
		}()
	}
	victim := vt.Choose("victim", nl)
	var others sync.WaitGroup
	others.Add(2)
	oks := make([]bool, k)
	go func() { // sender
		defer others.Done()
		for i := 0; i < k; i++ {
			oks[i] = b.Send(context.Background(), events[i])
		}
	}()
	go func() { // canceller: any moment relative to the sends
		defer others.Done()
		cancels[victim]()
	}()
	others.Wait()
	for i := 0; i < nl; i++ {
		cancels[i]()
	}
	consumers.Wait()
	for i := 0; i < k; i++ {
		vt.Assert(oks[i], "send-with-live-context-reports-ok")
	}
	for i := 0; i < nl; i++ {
		vt.Assert(closed[i], "cancelled-subscription-channel-is-closed")
		if i != victim {
			vt.Assert(len(got[i]) == k, "live-listener-receives-every-event-exactly-once")
		}
		vt.Assert(len(got[i]) <= k, "no-duplicates")
		for j := range got[i] {
			if j < k {
				vt.Assert(got[i][j] == ids[j], "events-arrive-in-send-order")
			}
		}
	}
	vt.NoLeak()
	vt.Reach("done")
}

// A listener that registers while a Send is cleaning up after a cancelled listener stays registered:
// an event sent after both have finished reaches it exactly once.
func VT_C10_ListenDuringCleanup() {
	var b Bus
	gctx, gcancel := context.WithCancel(context.Background())
	_ = b.Listen(gctx)
	gcancel() // a cancelled listener that has not been collected yet
	e1, e2 := vt.Msg("e1"), vt.Msg("e2")
	vt.Assume(vt.MsgID(e1) != vt.MsgID(e2))
	ctx, cancel := context.WithCancel(context.Background())
	var ch <-chan any
	var wg sync.WaitGroup
	wg.Add(2)
	go func() { defer wg.Done(); b.Send(context.Background(), e1) }() // notices the cancelled listener and cleans up
	got := make(chan int64, 4)
	go func() {
		defer wg.Done()
		ch = b.Listen(ctx)
		go func() {
			for e := range ch {
				got <- vt.MsgID(e.(proto.Message))
			}
			close(got)
		}()
	}()
	wg.Wait()
	ok := b.Send(context.Background(), e2)
	vt.Assert(ok, "send-reports-ok")
	cancel()
	n2 := 0
	for id := range got {
		if id == vt.MsgID(e2) {
			n2++
		}
	}
	vt.Assert(n2 == 1, "listener-registered-during-cleanup-receives-later-events-exactly-once")
	vt.Reach("done")
}
