//go:build verif

package minibus

import (
	"context"
	"sync"

	"google.golang.org/protobuf/proto"

	"github.com/smart-core-os/sc-golang/internal/vt"
)

var vtL = []string{"l0", "l1", "l2"}
var vtE = []string{"e0", "e1", "e2"}

// L listeners (one of which is cancelled by a separate goroutine at an arbitrary moment), one sender sending K
// events: no panic, no deadlock, every goroutine ends, live listeners get every event exactly once in order,
// a cancelled listener gets a duplicate-free prefix and its channel is closed.
func VT_C10_BusCancel() {
	nl := vt.Choose("listeners", vt.Bound("listeners", 2, 3)) + 1
	k := vt.Choose("events", 2) + 1
	var b Bus
	events := make([]any, k)
	ids := make([]int64, k)
	for i := range events {
		m := vt.Msg(vtE[i])
		events[i] = m
		ids[i] = vt.MsgID(m)
		for j := 0; j < i; j++ {
			vt.Assume(ids[j] != ids[i])
		}
	}
	cancels := make([]context.CancelFunc, nl)
	got := make([][]int64, nl)
	closed := make([]bool, nl)
	var consumers sync.WaitGroup
	for i := 0; i < nl; i++ {
		i := i
		ctx, cancel := context.WithCancel(context.Background())
		cancels[i] = cancel
		ch := b.Listen(ctx)
		consumers.Add(1)
		go func() {
			defer consumers.Done()
			for e := range ch {
				got[i] = append(got[i], vt.MsgID(e.(proto.Message)))
			}
			closed[i] = true
		}()
	}
	victim := vt.Choose("victim", nl)
	var others sync.WaitGroup
	others.Add(2)
	oks := make([]bool, k)
	go func() { // sender
		defer others.Done()
		for i := 0; i < k; i++ {
			oks[i] = b.Send(context.Background(), events[i])
		}
	}()
	go func() { // canceller: any moment relative to the sends
		defer others.Done()
		cancels[victim]()
	}()
	others.Wait()
	for i := 0; i < nl; i++ {
		cancels[i]()
	}
	consumers.Wait()
	for i := 0; i < k; i++ {
		vt.Assert(oks[i], "send-with-live-context-reports-ok")
	}
	for i := 0; i < nl; i++ {
		vt.Assert(closed[i], "cancelled-subscription-channel-is-closed")
		if i != victim {
			vt.Assert(len(got[i]) == k, "live-listener-receives-every-event-exactly-once")
		}
		vt.Assert(len(got[i]) <= k, "no-duplicates")
		for j := range got[i] {
			if j < k {
				vt.Assert(got[i][j] == ids[j], "events-arrive-in-send-order")
			}
		}
	}
	vt.NoLeak()
	vt.Reach("done")
}
