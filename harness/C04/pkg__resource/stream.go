//go:build verif

package resource

import (
	"context"
	"time"

	"google.golang.org/protobuf/proto"

	"github.com/smart-core-os/sc-api/go/types"
	"github.com/smart-core-os/sc-golang/internal/testproto"
	"github.com/smart-core-os/sc-golang/internal/vt"
)

type T4 = testproto.TestAllTypes

type vtClock4 struct{}

func (vtClock4) Now() time.Time { return vt.Time("clock") }

func vtT4(name string) *T4 {
	return &T4{DefaultInt32: vt.Int32(name + ".i32"), DefaultInt64: 7}
}

// vtProject4 is the read-mask projection used by the stream harness (mask nil or {default_int32}).
func vtProject4(m *T4, masked bool) *T4 {
	if m == nil || !masked {
		return m
	}
	return &T4{DefaultInt32: m.DefaultInt32}
}

// A backpressured Value subscription with one writer: seed first (flagged, stored change time), then exactly one
// event per successful write, in write order, carrying the returned value and the write time; none for failed writes.
func VT_C04_ValueStream() {
	opts := []Option{WithClock(vtClock4{})}
	var init *T4
	if vt.Choose("hasInitial", 2) == 1 {
		init = vtT4("init")
		opts = append(opts, WithInitialValue(init))
	}
	v := NewValue(opts...)
	updatesOnly := vt.Choose("updatesOnly", 2) == 1
	ctx, cancel := context.WithCancel(context.Background())
	ch := v.Pull(ctx, WithBackpressure(true), WithUpdatesOnly(updatesOnly))
	var events []*ValueChange
	got := make(chan struct{}, 16)
	finished := make(chan struct{})
	go func() {
		defer close(finished)
		for e := range ch {
			events = append(events, e)
			select {
			case got <- struct{}{}:
			case <-ctx.Done():
			}
		}
	}()
	// two writes; the second may carry a precondition that fails, and a write time
	type wr struct {
		ret proto.Message
		err error
		wt  *time.Time
	}
	var writes []wr
	m1 := vtT4("w1")
	r1, e1 := v.Set(m1)
	writes = append(writes, wr{ret: r1, err: e1})
	m2 := vtT4("w2")
	var o2 []WriteOption
	var wt2 *time.Time
	if vt.Choose("w2.writeTime", 2) == 1 {
		t := vt.Time("w2.time")
		wt2 = &t
		o2 = append(o2, WithWriteTime(t))
	}
	if vt.Choose("w2.expected", 2) == 1 {
		o2 = append(o2, WithExpectedValue(vtT4("w2.expect")))
	}
	r2, e2 := v.Set(m2, o2...)
	writes = append(writes, wr{ret: r2, err: e2, wt: wt2})
	want := 0
	if !updatesOnly && init != nil {
		want++
	}
	for _, w := range writes {
		if w.err == nil {
			want++
		}
	}
	for i := 0; i < want; i++ {
		<-got
	}
	cancel()
	<-finished
	vt.Assert(len(events) == want, "exactly-one-event-per-successful-write-plus-seed")
	if len(events) != want {
		return
	}
	k := 0
	if !updatesOnly && init != nil {
		s := events[0]
		vt.Assert(vt.And(s.SeedValue, s.LastSeedValue), "seed-flagged-seed-and-last-seed")
		vt.Assert(proto.Equal(s.Value, init), "seed-carries-current-value")
		k = 1
	}
	for _, w := range writes {
		if w.err != nil {
			continue
		}
		e := events[k]
		k++
		vt.Assert(vt.And(!e.SeedValue, !e.LastSeedValue), "update-not-flagged-seed")
		vt.Assert(proto.Equal(e.Value, w.ret), "event-carries-written-value")
		if w.wt != nil {
			vt.Assert(e.ChangeTime.Equal(*w.wt), "event-carries-write-time")
		}
	}
	vt.NoLeak()
	vt.Reach("done")
}

var vtIDs4 = []string{"a", "b", "c"}

// A backpressured Collection subscription: seeds sorted by id and flagged, then one exact edit per successful write.
func VT_C04_CollectionStream() {
	opts := []Option{WithClock(vtClock4{})}
	n := vt.Choose("items", vt.Bound("seedItems", 2, 3)+1)
	ids := make([]string, n)
	bodies := make([]*T4, n)
	for i := 0; i < n; i++ {
		ids[i] = vt.StrOrd(vtIDs4[i])
		vt.Assume(ids[i] != "")
		for j := 0; j < i; j++ {
			vt.Assume(ids[j] != ids[i])
		}
		bodies[i] = vtT4(vtIDs4[i] + ".body")
		opts = append(opts, WithInitialRecord(ids[i], bodies[i]))
	}
	c := NewCollection(opts...)
	updatesOnly := vt.Choose("updatesOnly", 2) == 1
	masked := vt.Choose("readMask", 2) == 1
	ropts := []ReadOption{WithBackpressure(true), WithUpdatesOnly(updatesOnly)}
	if masked {
		ropts = append(ropts, WithReadPaths(&T4{}, "default_int32"))
	}
	ctx, cancel := context.WithCancel(context.Background())
	ch := c.Pull(ctx, ropts...)
	var events []*CollectionChange
	got := make(chan struct{}, 16)
	finished := make(chan struct{})
	go func() {
		defer close(finished)
		for e := range ch {
			events = append(events, e)
			select {
			case got <- struct{}{}:
			case <-ctx.Done():
			}
		}
	}()
	// one write of an arbitrary kind on an arbitrary id
	id := vt.StrOrd("id")
	var cur *T4
	for i := range ids {
		if ids[i] == id {
			cur = bodies[i]
		}
	}
	var ret proto.Message
	var err error
	kind := vt.Choose("kind", 3)
	var wt *time.Time
	switch kind {
	case 0:
		ret, err = c.Add(id, vtT4("w"))
	case 1:
		var o []WriteOption
		if vt.Choose("writeTime", 2) == 1 {
			t := vt.Time("w.time")
			wt = &t
			o = append(o, WithWriteTime(t))
		}
		if vt.Choose("createIfAbsent", 2) == 1 {
			o = append(o, WithCreateIfAbsent())
		}
		ret, err = c.Update(id, vtT4("w"), o...)
	case 2:
		ret, err = c.Delete(id)
	}
	want := 0
	if !updatesOnly {
		want = n
	}
	if err == nil {
		want++
	}
	for i := 0; i < want; i++ {
		<-got
	}
	cancel()
	<-finished
	vt.Assert(len(events) == want, "exactly-one-event-per-successful-write-plus-seeds")
	if len(events) != want {
		return
	}
	k := 0
	if !updatesOnly {
		for i := 0; i < n; i++ {
			s := events[i]
			vt.Assert(vt.And(s.SeedValue, s.ChangeType == types.ChangeType_ADD, s.OldValue == nil), "seed-is-flagged-ADD")
			vt.Assert(s.LastSeedValue == (i == n-1), "exactly-the-final-seed-is-last-seed")
			if i > 0 {
				vt.Assert(events[i-1].Id < s.Id, "seeds-sorted-by-id")
			}
			// it is one of the initial items with its body
			found := false
			for j := range ids {
				if ids[j] == s.Id {
					found = true
					vt.Assert(proto.Equal(s.NewValue, vtProject4(bodies[j], masked)), "seed-carries-item-body")
				}
			}
			vt.Assert(found, "seed-id-is-an-initial-item")
		}
		k = n
	}
	if err == nil {
		e := events[k]
		vt.Assert(e.Id == id, "event-id")
		vt.Assert(vt.And(!e.SeedValue, !e.LastSeedValue), "update-not-flagged-seed")
		var retT *T4
		if ret != nil {
			retT = ret.(*T4)
		}
		switch {
		case kind == 2:
			vt.Assert(e.ChangeType == types.ChangeType_REMOVE, "delete-is-REMOVE")
			vt.Assert(vt.And(proto.Equal(e.OldValue, vtProject4(cur, masked)), e.NewValue == nil), "remove-carries-old-value-only")
		case cur == nil:
			vt.Assert(e.ChangeType == types.ChangeType_ADD, "write-of-absent-id-is-ADD")
			vt.Assert(vt.And(e.OldValue == nil, proto.Equal(e.NewValue, vtProject4(retT, masked))), "add-carries-new-value-only")
		default:
			vt.Assert(e.ChangeType == types.ChangeType_UPDATE, "write-of-present-id-is-UPDATE")
			vt.Assert(vt.And(proto.Equal(e.OldValue, vtProject4(cur, masked)), proto.Equal(e.NewValue, vtProject4(retT, masked))), "update-carries-old-and-new-value")
		}
		if wt != nil {
			vt.Assert(e.ChangeTime.Equal(*wt), "event-carries-write-time")
		}
	}
	vt.NoLeak()
	vt.Reach("done")
}

// A subscription opened while a write is being published and an earlier, cancelled subscription is still being
// cleaned up: every write made after Pull returned is delivered to it exactly once, in order.
func VT_C04_LateSubscriberAfterCancelledOne() {
	v := NewValue(WithInitialValue(&T4{DefaultInt32: 100}))
	gctx, gcancel := context.WithCancel(context.Background())
	_ = v.bus.Listen(gctx)
	gcancel() // cancelled, not yet removed from the bus
	ctx, cancel := context.WithCancel(context.Background())
	registered := make(chan struct{})
	var events []int32
	finished := make(chan struct{})
	go func() { v.Set(&T4{DefaultInt32: 11}) }() // its publication collects the cancelled listener
	go func() {
		ch := v.Pull(ctx, WithBackpressure(true), WithUpdatesOnly(true))
		close(registered)
		defer close(finished)
		for e := range ch {
			events = append(events, e.Value.(*T4).DefaultInt32)
		}
	}()
	<-registered
	vt.Settle() // the concurrent write has been published (to whom it may concern)
	_, err := v.Set(&T4{DefaultInt32: 12})
	vt.Assert(err == nil, "write-after-subscribing-succeeds")
	_, err = v.Set(&T4{DefaultInt32: 13})
	vt.Assert(err == nil, "write-after-subscribing-succeeds")
	vt.Settle()
	cancel()
	<-finished
	n12, n13 := 0, 0
	for _, x := range events {
		if x == 12 {
			n12++
		}
		if x == 13 {
			n13++
		}
	}
	vt.Assert(vt.And(n12 == 1, n13 == 1), "each-write-after-subscribing-delivered-exactly-once")
	if len(events) >= 2 {
		vt.Assert(vt.And(events[len(events)-2] == 12, events[len(events)-1] == 13), "later-writes-delivered-in-write-order")
	}
	vt.Reach("done")
}

// The seed of a subscription opened after a write carries that write's change time: the WithWriteTime instant when one
// was given (Value and Collection item), and the initial/creation time otherwise.
func VT_C04_SeedCarriesStoredChangeTime() {
	wt := vt.Time("writeTime")
	ctx, cancel := context.WithCancel(context.Background())
	defer cancel()
	if vt.Choose("resource", 2) == 0 {
		v := NewValue(WithClock(vtClock4{}), WithInitialValue(vtT4("init")))
		_, err := v.Set(vtT4("w"), WithWriteTime(wt))
		vt.Assert(err == nil, "write-succeeds")
		if vt.Choose("thenFailedWrite", 2) == 1 {
			// a failing write must not touch the stored change time either
			_, err = v.Set(vtT4("w2"), WithWriteTime(vt.Time("otherTime")), WithExpectedValue(&T4{DefaultInt32: 1, DefaultInt64: 99}))
			vt.Assert(err != nil, "write-with-a-false-precondition-fails")
		}
		seed := <-v.Pull(ctx, WithBackpressure(true))
		vt.Assert(seed.ChangeTime.Equal(wt), "value-seed-carries-the-stored-change-time")
	} else {
		c := NewCollection(WithClock(vtClock4{}), WithInitialRecord("a", vtT4("init")))
		_, err := c.Update("a", vtT4("w"), WithWriteTime(wt))
		vt.Assert(err == nil, "write-succeeds")
		seed := <-c.Pull(ctx, WithBackpressure(true))
		vt.Assert(seed.ChangeTime.Equal(wt), "collection-seed-carries-the-item-stored-change-time")
	}
	vt.Reach("done")
}
