//go:build verif

package resource

import (
	"context"

	"google.golang.org/protobuf/proto"

	"github.com/smart-core-os/sc-api/go/types"
	"github.com/smart-core-os/sc-golang/internal/testproto"
	"github.com/smart-core-os/sc-golang/internal/vt"
)

type T4e = testproto.TestAllTypes

// vtTol4 is a tolerance equivalence: reflexive and symmetric but not transitive.
// Two messages are equivalent when their default_int32 differ by at most tol and default_int64 is equal.
type vtTol4 struct {
	tol   int64
	exact bool
}

func (t vtTol4) Compare(x, y proto.Message) bool {
	if x == nil || y == nil {
		return x == nil && y == nil
	}
	a, b := x.(*T4e), y.(*T4e)
	if a == nil || b == nil {
		return a == nil && b == nil
	}
	if t.exact {
		return proto.Equal(a, b)
	}
	d := int64(a.DefaultInt32) - int64(b.DefaultInt32)
	return vt.And(d <= t.tol, -d <= t.tol, a.DefaultInt64 == b.DefaultInt64)
}

func vtT4e(name string) *T4e {
	return &T4e{DefaultInt32: vt.Int32(name + ".i32"), DefaultInt64: int64(vt.Choose(name+".i64", 2))}
}

func vtProject4e(m *T4e, masked bool) *T4e {
	if m == nil || !masked {
		return m
	}
	return &T4e{DefaultInt32: m.DefaultInt32}
}

func vtEquivalence4() (vtTol4, bool, Option) {
	var eq vtTol4
	switch vt.Choose("equivalence", 3) {
	case 0:
		eq.tol = int64(vt.Int32("tolerance"))
		vt.Assume(eq.tol >= 0)
		return eq, true, WithEquivalence(eq)
	case 1:
		eq.exact = true
		return eq, true, WithNoDuplicates()
	}
	// no equivalence configured: nothing is ever suppressed
	return eq, false, EmptyOption{}
}

// A Value with an equivalence (exact, a non-transitive tolerance, or none) and a subscriber with or without a read mask:
// a write is delivered iff its (projected) value is not equivalent to the value the subscriber holds, i.e. the last one
// delivered to it; without an equivalence every write is delivered.
func VT_C04_ValueEquivalence() {
	eq, configured, eqOpt := vtEquivalence4()
	opts := []Option{eqOpt}
	var init *T4e
	if vt.Choose("hasInitial", 2) == 1 {
		init = vtT4e("init")
		opts = append(opts, WithInitialValue(init))
	}
	v := NewValue(opts...)
	updatesOnly := vt.Choose("updatesOnly", 2) == 1
	masked := vt.Choose("readMask", 2) == 1
	ropts := []ReadOption{WithBackpressure(true), WithUpdatesOnly(updatesOnly)}
	if masked {
		ropts = append(ropts, WithReadPaths(&T4e{}, "default_int32"))
	}
	ctx, cancel := context.WithCancel(context.Background())
	ch := v.Pull(ctx, ropts...)
	var events []*ValueChange
	finished := make(chan struct{})
	go func() {
		defer close(finished)
		for e := range ch {
			events = append(events, e)
		}
	}()
	var held *T4e
	var want []*T4e
	if !updatesOnly && init != nil {
		held = vtProject4e(init, masked)
		want = append(want, held)
	}
	n := vt.Bound("dedupWrites", 2, 3)
	for i := 0; i < n; i++ {
		w := vtT4e([]string{"w1", "w2", "w3"}[i])
		_, err := v.Set(w)
		vt.Assert(err == nil, "plain-set-succeeds")
		p := vtProject4e(w, masked)
		if configured && held != nil && eq.Compare(held, p) {
			continue
		}
		held = p
		want = append(want, p)
	}
	vt.Settle()
	cancel()
	<-finished
	vt.Assert(len(events) >= len(want), "non-equivalent-change-never-suppressed")
	vt.Assert(len(events) <= len(want), "equivalent-change-never-delivered")
	if len(events) != len(want) {
		return
	}
	for i := range want {
		vt.Assert(proto.Equal(events[i].Value, want[i]), "delivered-values-are-the-non-equivalent-ones-in-order")
	}
	vt.Reach("done")
}

// The same for a Collection: an update of an item is delivered iff its (projected) new value is not equivalent to its
// (projected) old value; adds and removes are always delivered.
func VT_C04_CollectionEquivalence() {
	eq, configured, eqOpt := vtEquivalence4()
	id := "0000000000000001"
	init := vtT4e("init")
	c := NewCollection(eqOpt, WithInitialRecord(id, init))
	masked := vt.Choose("readMask", 2) == 1
	ropts := []ReadOption{WithBackpressure(true), WithUpdatesOnly(true)}
	if masked {
		ropts = append(ropts, WithReadPaths(&T4e{}, "default_int32"))
	}
	ctx, cancel := context.WithCancel(context.Background())
	ch := c.Pull(ctx, ropts...)
	var events []*CollectionChange
	finished := make(chan struct{})
	go func() {
		defer close(finished)
		for e := range ch {
			events = append(events, e)
		}
	}()
	cur := init
	type ev struct {
		kind     types.ChangeType
		old, new *T4e
	}
	var want []ev
	n := vt.Bound("dedupWrites", 2, 3)
	for i := 0; i < n; i++ {
		name := []string{"w1", "w2", "w3"}[i]
		if cur != nil && vt.Choose(name+".delete", 2) == 1 {
			_, err := c.Delete(id)
			vt.Assert(err == nil, "delete-succeeds")
			want = append(want, ev{types.ChangeType_REMOVE, vtProject4e(cur, masked), nil})
			cur = nil
			continue
		}
		w := vtT4e(name)
		_, err := c.Update(id, w, WithCreateIfAbsent())
		vt.Assert(err == nil, "upsert-succeeds")
		po, pn := vtProject4e(cur, masked), vtProject4e(w, masked)
		wasAbsent := cur == nil
		cur = w
		if wasAbsent {
			want = append(want, ev{types.ChangeType_ADD, nil, pn})
			continue
		}
		if configured && eq.Compare(po, pn) {
			continue
		}
		want = append(want, ev{types.ChangeType_UPDATE, po, pn})
	}
	vt.Settle()
	cancel()
	<-finished
	vt.Assert(len(events) >= len(want), "non-equivalent-change-never-suppressed")
	vt.Assert(len(events) <= len(want), "equivalent-change-never-delivered")
	if len(events) != len(want) {
		return
	}
	for i, w := range want {
		e := events[i]
		vt.Assert(e.ChangeType == w.kind, "delivered-kind")
		if w.old != nil {
			vt.Assert(proto.Equal(e.OldValue, w.old), "delivered-old-value")
		}
		if w.new != nil {
			vt.Assert(proto.Equal(e.NewValue, w.new), "delivered-new-value")
		}
	}
	vt.Reach("done")
}
