//go:build verif

package resource

import (
	"context"

	"google.golang.org/protobuf/proto"
	"google.golang.org/protobuf/types/known/fieldmaskpb"

	"github.com/smart-core-os/sc-golang/internal/testproto"
	"github.com/smart-core-os/sc-golang/internal/vt"
	"github.com/smart-core-os/sc-golang/internal/vth"
)

type T4p = testproto.TestAllTypes

func vtKeep4p(mask *fieldmaskpb.FieldMask, p string) bool { return mask == nil || vth.Covers(mask, p) }

// vtProjected4p: got is precisely orig's fields selected by mask (independent leaf-by-leaf projection).
func vtProjected4p(got proto.Message, orig *T4p, mask *fieldmaskpb.FieldMask, label string) {
	g, ok := got.(*T4p)
	vt.Assert(vt.And(ok, g != nil), label+":read-returns-a-message")
	if !ok || g == nil {
		return
	}
	want := &T4p{}
	if vtKeep4p(mask, "default_int32") {
		want.DefaultInt32 = orig.DefaultInt32
	}
	if vtKeep4p(mask, "default_int64") {
		want.DefaultInt64 = orig.DefaultInt64
	}
	if orig.DefaultForeignMessage != nil && (vtKeep4p(mask, "default_foreign_message") || vth.Touches(mask, "default_foreign_message")) {
		f := &testproto.ForeignMessage{}
		if vtKeep4p(mask, "default_foreign_message.c") {
			f.C = orig.DefaultForeignMessage.C
		}
		if vtKeep4p(mask, "default_foreign_message.d") {
			f.D = orig.DefaultForeignMessage.D
		}
		want.DefaultForeignMessage = f
	}
	vt.Assert(g.DefaultInt32 == want.DefaultInt32, label+":scalar-projection")
	vt.Assert(g.DefaultInt64 == want.DefaultInt64, label+":int64-projection")
	vt.Assert(g.GetDefaultForeignMessage().GetC() == want.GetDefaultForeignMessage().GetC(), label+":nested-leaf-c-projection")
	vt.Assert(g.GetDefaultForeignMessage().GetD() == want.GetDefaultForeignMessage().GetD(), label+":nested-leaf-d-projection")
	if vtKeep4p(mask, "default_foreign_message") || orig.DefaultForeignMessage == nil {
		vt.Assert((g.DefaultForeignMessage == nil) == (orig.DefaultForeignMessage == nil), label+":message-presence-projection")
	}
}

// Two backpressured subscribers of one collection with different read masks (none / default_int32, in either
// registration order) and an update: each receives its own projection of the old and the new value.
func VT_C04_TwoSubscribersOwnProjection() {
	id := "0000000000000001"
	init := &T4p{DefaultInt32: vt.Int32("init.i32"), DefaultInt64: 7}
	initCopy := proto.Clone(init).(*T4p)
	c := NewCollection(WithInitialRecord(id, init))
	pairs := [][2]*fieldmaskpb.FieldMask{{nil, vth.Mask("default_int32")}, {vth.Mask("default_int32"), nil}}
	pair := pairs[vt.Choose("masks", len(pairs))]
	ctx, cancel := context.WithCancel(context.Background())
	events := make([][]*CollectionChange, 2)
	fins := []chan struct{}{make(chan struct{}), make(chan struct{})}
	for i := 0; i < 2; i++ {
		i := i
		ropts := []ReadOption{WithBackpressure(true), WithUpdatesOnly(true)}
		if pair[i] != nil {
			ropts = append(ropts, WithReadMask(pair[i]))
		}
		ch := c.Pull(ctx, ropts...)
		go func() {
			defer close(fins[i])
			for e := range ch {
				events[i] = append(events[i], e)
			}
		}()
	}
	w := &T4p{DefaultInt32: vt.Int32("w.i32"), DefaultInt64: 9}
	wCopy := proto.Clone(w).(*T4p)
	_, err := c.Update(id, w)
	vt.Assert(err == nil, "update-succeeds")
	vt.Settle()
	cancel()
	<-fins[0]
	<-fins[1]
	for i := 0; i < 2; i++ {
		vt.Assert(len(events[i]) == 1, "each-subscriber-gets-the-event")
		if len(events[i]) != 1 {
			continue
		}
		vtProjected4p(events[i][0].OldValue, initCopy, pair[i], "own-projection-of-update-old")
		vtProjected4p(events[i][0].NewValue, wCopy, pair[i], "own-projection-of-update-new")
	}
	vt.Reach("done")
}
