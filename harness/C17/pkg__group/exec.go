//go:build verif

package group

import (
	"context"

	"google.golang.org/protobuf/proto"

	"github.com/smart-core-os/sc-golang/internal/vt"
)

var vtNames = []string{"m0", "m1", "m2", "m3", "m4"}

type vtMember struct {
	fail bool
	msg  proto.Message
	err  error
}

func vtMembers(n int) ([]Member, []vtMember) {
	specs := make([]vtMember, n)
	members := make([]Member, n)
	for i := 0; i < n; i++ {
		s := vtMember{msg: vt.Msg(vtNames[i] + ".msg"), err: vt.Err(vtNames[i] + ".err")}
		s.fail = vt.Choose(vtNames[i]+".fail", 2) == 1
		specs[i] = s
		members[i] = func(ctx context.Context) (proto.Message, error) {
			if s.fail {
				return nil, s.err
			}
			return s.msg, nil
		}
	}
	// distinct identities so that "which member's result is this" is decidable
	for i := 0; i < n; i++ {
		for j := i + 1; j < n; j++ {
			vt.Assume(vt.MsgID(specs[i].msg) != vt.MsgID(specs[j].msg))
			vt.Assume(vt.ErrID(specs[i].err) != vt.ErrID(specs[j].err))
		}
	}
	return members, specs
}

func vtCountFail(specs []vtMember) int {
	c := 0
	for _, s := range specs {
		if s.fail {
			c++
		}
	}
	return c
}

// errIsOneOfFailed: err is the error of some failing member.
func vtErrOfFailed(err error, specs []vtMember) bool {
	ok := false
	for _, s := range specs {
		if s.fail && vt.ErrID(err) == vt.ErrID(s.err) {
			ok = true
		}
	}
	return ok
}

// Every strategy x n members x every success/failure assignment x every completion order
// (the scheduler's choice): threshold, result placement, no panic, no leaked goroutine.
func VT_C17_Execute() {
	n := vt.Choose("n", vt.Bound("members", 3, 3)+1)
	strategy := ExecutionStrategy(vt.Choose("strategy", 7))
	members, specs := vtMembers(n)
	var res []proto.Message
	var err error
	panicked, _ := vt.Try(func() {
		res, err = Execute(context.Background(), strategy, members)
	})
	vt.NoLeak()
	vt.Assert(!panicked, "never-panics")
	if panicked {
		return
	}
	fails := vtCountFail(specs)
	switch strategy {
	case ExecutionStrategyUnspecified, ExecutionStrategyAll:
		vt.Assert((err != nil) == (fails > 0), "all-fails-iff-some-member-fails")
	case ExecutionStrategyMost:
		vt.Assert((err != nil) == (2*fails > n), "most-fails-iff-more-than-half-fail")
	case ExecutionStrategyAny:
		if n > 0 {
			vt.Assert((err != nil) == (fails == n), "any-fails-iff-all-fail")
		}
	case ExecutionStrategyOne, ExecutionStrategyFast:
		if n > 0 {
			vt.Assert((err != nil) == (fails == n), "one-fast-fail-iff-all-fail")
		}
	case ExecutionStrategyRace:
	}
	if n == 0 {
		vt.Reach("empty-group")
		return
	}
	vt.Assert(len(res) == n, "one-result-slot-per-member")
	if len(res) != n {
		return
	}
	if err != nil && fails > 0 {
		vt.Assert(vtErrOfFailed(err, specs), "error-is-a-members-error")
	}
	switch strategy {
	case ExecutionStrategyUnspecified, ExecutionStrategyAll, ExecutionStrategyMost, ExecutionStrategyAny:
		// every member ran: successes at their own index, nil elsewhere
		for i, s := range specs {
			if s.fail {
				vt.Assert(res[i] == nil, "failed-member-slot-nil")
			} else {
				vt.Assert(res[i] == s.msg, "result-at-own-index")
			}
		}
	case ExecutionStrategyOne:
		// first success in index order
		first := -1
		for i, s := range specs {
			if !s.fail && first < 0 {
				first = i
			}
		}
		for i := range specs {
			if i == first {
				vt.Assert(res[i] == specs[i].msg, "one-result-at-first-success")
			} else {
				vt.Assert(res[i] == nil, "one-other-slots-nil")
			}
		}
		if first < 0 {
			vt.Assert(vt.ErrID(err) == vt.ErrID(specs[0].err), "one-returns-first-error")
		}
	case ExecutionStrategyFast, ExecutionStrategyRace:
		// exactly zero or one slot is filled, with that member's own message
		filled := 0
		for i, s := range specs {
			if res[i] != nil {
				filled++
				vt.Assert(!s.fail, "filled-slot-belongs-to-a-success")
				vt.Assert(res[i] == s.msg, "fast-race-result-at-own-index")
			}
		}
		vt.Assert(filled <= 1, "fast-race-at-most-one-result")
		if err == nil {
			vt.Assert(filled == 1, "fast-race-success-has-a-result")
		} else {
			vt.Assert(filled == 0, "fast-race-error-has-no-result")
		}
	}
	vt.Reach("done")
}

// Members complete in an order chosen by the harness (each released only after the previous response has been taken
// in): the error returned is the first one observed; once the outcome is decided the remaining members' contexts are
// cancelled (members that wait for cancellation still let the call return).
func VT_C17_OrderedCompletion() {
	n := vt.Bound("orderedMembers", 3, 3)
	strategy := []ExecutionStrategy{ExecutionStrategyAll, ExecutionStrategyMost, ExecutionStrategyAny}[vt.Choose("strategy", 3)]
	perms := [][]int{{0, 1, 2}, {0, 2, 1}, {1, 0, 2}, {1, 2, 0}, {2, 0, 1}, {2, 1, 0}}
	order := perms[vt.Choose("order", len(perms))]
	gates := make([]chan struct{}, n)
	specs := make([]vtMember, n)
	members := make([]Member, n)
	for i := 0; i < n; i++ {
		i := i
		gates[i] = make(chan struct{})
		specs[i] = vtMember{msg: vt.Msg(vtNames[i] + ".msg"), err: vt.Err(vtNames[i] + ".err"), fail: vt.Choose(vtNames[i]+".fail", 2) == 1}
		members[i] = func(ctx context.Context) (proto.Message, error) {
			<-gates[i]
			if specs[i].fail {
				return nil, specs[i].err
			}
			return specs[i].msg, nil
		}
	}
	for i := 0; i < n; i++ {
		for j := i + 1; j < n; j++ {
			vt.Assume(vt.ErrID(specs[i].err) != vt.ErrID(specs[j].err))
		}
	}
	go func() {
		for _, i := range order {
			close(gates[i])
			vt.Settle() // the response of member i has been taken in before the next member completes
		}
	}()
	_, err := Execute(context.Background(), strategy, members)
	fails := vtCountFail(specs)
	var wantErr bool
	switch strategy {
	case ExecutionStrategyAll:
		wantErr = fails > 0
	case ExecutionStrategyMost:
		wantErr = 2*fails > n
	case ExecutionStrategyAny:
		wantErr = fails == n
	}
	vt.Assert((err != nil) == wantErr, "threshold")
	if err != nil && wantErr {
		first := -1
		for _, i := range order {
			if specs[i].fail && first < 0 {
				first = i
			}
		}
		vt.Assert(vt.ErrID(err) == vt.ErrID(specs[first].err), "error-returned-is-the-first-one-observed")
	}
	vt.NoLeak()
	vt.Reach("done")
}

// Cancellation-aware members: once the outcome is decided the others are cancelled, so the call returns.
func VT_C17_CancelsRemainingMembers() {
	strategy := []ExecutionStrategy{ExecutionStrategyAll, ExecutionStrategyFast, ExecutionStrategyRace, ExecutionStrategyMost}[vt.Choose("strategy", 4)]
	e0 := vt.Err("e0")
	m0 := vt.Msg("m0")
	decider := func(ctx context.Context) (proto.Message, error) {
		switch strategy {
		case ExecutionStrategyAll, ExecutionStrategyMost:
			return nil, e0 // a failure decides All; two of them decide Most (of three)
		}
		return m0, nil // a success decides Fast; any response decides Race
	}
	waiter := func(ctx context.Context) (proto.Message, error) {
		<-ctx.Done() // only returns when cancelled
		return nil, ctx.Err()
	}
	members := []Member{decider, waiter}
	if strategy == ExecutionStrategyMost {
		members = []Member{decider, decider, waiter}
	}
	_, err := Execute(context.Background(), strategy, members) // must return: a hang is reported as a deadlock
	switch strategy {
	case ExecutionStrategyAll, ExecutionStrategyMost:
		vt.Assert(err != nil, "decided-failure-is-reported")
	case ExecutionStrategyFast, ExecutionStrategyRace:
		vt.Assert(err == nil, "decided-success-is-reported")
	}
	vt.NoLeak()
	vt.Reach("done")
}

// The remaining members are cancelled once the outcome is DECIDED, not before: with Most (2 members) or Any
// (2 members) one failure decides nothing, so a member that honours its context and finishes later still counts.
func VT_C17_NoEarlyCancel() {
	strategy := []ExecutionStrategy{ExecutionStrategyMost, ExecutionStrategyAny}[vt.Choose("strategy", 2)]
	e0 := vt.Err("e0")
	m1 := vt.Msg("m1")
	release := make(chan struct{})
	cancelledEarly := false
	failer := func(ctx context.Context) (proto.Message, error) { return nil, e0 }
	late := func(ctx context.Context) (proto.Message, error) {
		select {
		case <-ctx.Done():
			cancelledEarly = true
			return nil, ctx.Err()
		case <-release:
			return m1, nil
		}
	}
	var res []proto.Message
	var err error
	done := make(chan struct{})
	go func() {
		defer close(done)
		res, err = Execute(context.Background(), strategy, []Member{failer, late})
	}()
	vt.Settle() // the failure has been taken in; the outcome is still open
	close(release)
	<-done
	vt.Assert(!cancelledEarly, "member-not-cancelled-before-the-outcome-is-decided")
	vt.Assert(err == nil, "one-failure-of-two-does-not-fail-most-or-any")
	if err == nil && len(res) == 2 {
		vt.Assert(res[1] == m1, "late-member-result-at-its-own-index")
	}
	vt.NoLeak()
	vt.Reach("done")
}
