//go:build verif

package lightpb

import (
	"context"
	"sync"

	"google.golang.org/grpc"
	"google.golang.org/grpc/codes"
	"google.golang.org/grpc/status"

	"github.com/smart-core-os/sc-api/go/traits"
	"github.com/smart-core-os/sc-golang/internal/vt"
	"github.com/smart-core-os/sc-golang/pkg/group"
)

var vtGroupNames = []string{"m0", "m1", "m2"}

type vtFakeLight struct {
	traits.LightApiClient // the methods not driven by the harness
	mu                    sync.Mutex
	fail                  map[string]bool
	calls                 []string
}

// wait: the member named "waiter" only returns once the context it was given is cancelled.
func (f *vtFakeLight) wait(ctx context.Context, name string) error {
	if name != "waiter" {
		return nil
	}
	<-ctx.Done()
	return ctx.Err()
}

func (f *vtFakeLight) record(method, name string) bool {
	f.mu.Lock()
	defer f.mu.Unlock()
	f.calls = append(f.calls, method+":"+name)
	return f.fail[name]
}

func (f *vtFakeLight) GetBrightness(ctx context.Context, in *traits.GetBrightnessRequest, opts ...grpc.CallOption) (*traits.Brightness, error) {
	if err := f.wait(ctx, in.Name); err != nil {
		return nil, err
	}
	if f.record("get", in.Name) {
		return nil, status.Error(codes.Unavailable, "member down")
	}
	return &traits.Brightness{}, nil
}

func (f *vtFakeLight) UpdateBrightness(ctx context.Context, in *traits.UpdateBrightnessRequest, opts ...grpc.CallOption) (*traits.Brightness, error) {
	if err := f.wait(ctx, in.Name); err != nil {
		return nil, err
	}
	if f.record("update", in.Name) {
		return nil, status.Error(codes.Unavailable, "member down")
	}
	return &traits.Brightness{}, nil
}

// vtStrategyFails: the contract of the tolerant strategies on n members of which nFail fail.
func vtStrategyFails(s group.ExecutionStrategy, nFail, n int) bool {
	switch s {
	case group.ExecutionStrategyAll:
		return nFail > 0
	case group.ExecutionStrategyMost:
		return 2*nFail > n
	default: // Any
		return n > 0 && nFail == n
	}
}

// The light group server: reads honour ReadExecution, writes honour WriteExecution (independently configured), every
// member is asked at most once under its own name and the caller's request is not modified.
func VT_C17_LightGroup() {
	n := vt.Bound("groupMembers", 2, 3)
	strategies := []group.ExecutionStrategy{group.ExecutionStrategyAll, group.ExecutionStrategyMost, group.ExecutionStrategyAny}
	fake := &vtFakeLight{fail: map[string]bool{}}
	nFail := 0
	for i := 0; i < n; i++ {
		if vt.Choose(vtGroupNames[i]+".fail", 2) == 1 {
			fake.fail[vtGroupNames[i]] = true
			nFail++
		}
	}
	g := NewGroup(fake, vtGroupNames[:n]...)
	g.ReadExecution = strategies[vt.Choose("read", 3)]
	g.WriteExecution = strategies[vt.Choose("write", 3)]
	var err error
	var resp *traits.Brightness
	method := "get"
	strategy := g.ReadExecution
	if vt.Choose("op", 2) == 0 {
		req := &traits.GetBrightnessRequest{Name: "group"}
		resp, err = g.GetBrightness(context.Background(), req)
		vt.Assert(req.Name == "group", "caller-request-not-modified")
	} else {
		method, strategy = "update", g.WriteExecution
		req := &traits.UpdateBrightnessRequest{Name: "group", Brightness: &traits.Brightness{}}
		resp, err = g.UpdateBrightness(context.Background(), req)
		vt.Assert(req.Name == "group", "caller-request-not-modified")
	}
	vt.Settle()
	vt.Assert((err != nil) == vtStrategyFails(strategy, nFail, n), "group-rpc-fails-exactly-when-its-own-strategy-says-so")
	if err == nil {
		vt.Assert(resp != nil, "successful-group-rpc-has-a-response")
	}
	fake.mu.Lock()
	for i := 0; i < n; i++ {
		c := 0
		for _, call := range fake.calls {
			if call == method+":"+vtGroupNames[i] {
				c++
			}
		}
		vt.Assert(c <= 1, "member-asked-at-most-once-under-its-own-name")
		if err == nil || strategy != group.ExecutionStrategyAll {
			vt.Assert(c == 1, "every-member-asked")
		}
	}
	vt.Assert(len(fake.calls) <= n, "no-call-outside-the-members-or-with-another-method")
	fake.mu.Unlock()
	vt.Reach("done")
}

// Once the outcome is decided (a failure under All) the remaining member's context is cancelled: the group call returns
// although that member only ever returns on cancellation, and nothing is left running.
func VT_C17_LightGroupCancels() {
	fake := &vtFakeLight{fail: map[string]bool{"m0": true}}
	g := NewGroup(fake, "m0", "waiter")
	var err error
	if vt.Choose("op", 2) == 0 {
		_, err = g.GetBrightness(context.Background(), &traits.GetBrightnessRequest{Name: "group"})
	} else {
		_, err = g.UpdateBrightness(context.Background(), &traits.UpdateBrightnessRequest{Name: "group", Brightness: &traits.Brightness{}})
	}
	vt.Assert(err != nil, "decided-failure-is-reported")
	vt.NoLeak()
	vt.Reach("done")
}
