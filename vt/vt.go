//go:build verif

// Package vt is the harness vocabulary.  This is the NATIVE implementation: it
// reads inputs from a replay case, so that a harness is an ordinary Go function
// that reproduces what the symbolic engine explored.  The symbolic engine
// intercepts every function of this package and never executes these bodies.
package vt

import (
	"encoding/json"
	"fmt"
	"math"
	"math/rand"
	"os"
	"reflect"
	"runtime"
	"runtime/debug"
	"sort"
	"strconv"
	"strings"
	"sync"
	"sync/atomic"
	"time"

	"google.golang.org/protobuf/proto"
	"google.golang.org/protobuf/types/known/wrapperspb"

	"github.com/smart-core-os/sc-golang/internal/verifhook"
)

// Case is one replay case.
type Case struct {
	ID      string                     `json:"id"`
	Harness string                     `json:"harness"`
	Inputs  map[string]json.RawMessage `json:"inputs"`
	// Repeat > 1: the outcome depends on goroutine scheduling; run up to Repeat times and keep the first failing run.
	Repeat int `json:"repeat,omitempty"`
	// Candidate: the replay of a counterexample (never skipped)
	Candidate bool `json:"candidate,omitempty"`
}

// Result is what a native run of one case produced.
type Result struct {
	ID       string            `json:"id"`
	Harness  string            `json:"harness"`
	Failed   []string          `json:"failed"`   // labels of failed assertions
	Panic    string            `json:"panic"`    // non-empty: harness panicked
	Stack    string            `json:"stack,omitempty"`
	Reached  []string          `json:"reached"`
	Obs      map[string]string `json:"obs"`
	Rejected bool              `json:"rejected"` // an Assume was false: inputs outside the harness's domain
	Leaked   int               `json:"leaked"`
	Known    []string          `json:"known"`
	Runs     int               `json:"runs,omitempty"`
	HookCalls int              `json:"hook_calls,omitempty"`
	// Skipped: a validation sample that was not run because three earlier samples of the same harness had already
	// hung (each hang costs the whole watchdog period)
	Skipped bool `json:"skipped,omitempty"`
}

var hookCalls atomic.Int64
var runStart, runVictim int64
var pickVictim func()

type state struct {
	mu      sync.Mutex
	c       Case
	counts  map[string]int
	res     Result
	msgs    map[int64]proto.Message
	noLeak  bool
}

var cur *state

var registry = map[string]func(){}

// Register makes a harness function available to RunReplay.
func Register(name string, f func()) { registry[name] = f }

type rejected struct{}

func uniq(name string) string {
	n := cur.counts[name]
	cur.counts[name] = n + 1
	if n == 0 {
		return name
	}
	return fmt.Sprintf("%s#%d", name, n)
}

func raw(name string) (json.RawMessage, bool) {
	cur.mu.Lock()
	defer cur.mu.Unlock()
	u := uniq(name)
	r, ok := cur.c.Inputs[u]
	return r, ok
}

func intIn(name string) int64 {
	r, ok := raw(name)
	if !ok {
		return 0
	}
	var s string
	if json.Unmarshal(r, &s) == nil {
		v, err := strconv.ParseInt(s, 10, 64)
		if err != nil {
			u, _ := strconv.ParseUint(s, 10, 64)
			return int64(u)
		}
		return v
	}
	var f float64
	json.Unmarshal(r, &f)
	return int64(f)
}

func Int64(name string) int64 { return intIn(name) }
func Int32(name string) int32 { return int32(intIn(name)) }
func Int(name string) int     { return int(intIn(name)) }
func Uint8(name string) uint8 { return uint8(intIn(name)) }
func Uint32(name string) uint32 { return uint32(intIn(name)) }
func Uint64(name string) uint64 { return uint64(intIn(name)) }

func Bool(name string) bool {
	r, ok := raw(name)
	if !ok {
		return false
	}
	var b bool
	json.Unmarshal(r, &b)
	return b
}

func Str(name string) string {
	r, ok := raw(name)
	if !ok {
		return ""
	}
	var s string
	json.Unmarshal(r, &s)
	return s
}

func bitsIn(name string) uint64 {
	r, ok := raw(name)
	if !ok {
		return 0
	}
	var m struct {
		Bits string `json:"bits"`
	}
	json.Unmarshal(r, &m)
	u, _ := strconv.ParseUint(m.Bits, 10, 64)
	return u
}

func Float64(name string) float64 { return math.Float64frombits(bitsIn(name)) }
func Float32(name string) float32 { return math.Float32frombits(uint32(bitsIn(name))) }

// IntFloat32 is a float32 holding an integer of magnitude <= 2^16 ("intfloat" mode).
func IntFloat32(name string) float32 { return math.Float32frombits(uint32(bitsIn(name))) }

// Choose returns a value in [0,n); the engine explores every value.
func Choose(name string, n int) int {
	v := int(intIn(name))
	if v < 0 || v >= n {
		return 0
	}
	return v
}

// Time is an arbitrary instant (nanoseconds since the Unix epoch, |ns| < 2^62).
func Time(name string) time.Time { return time.Unix(0, intIn(name)).UTC() }

// TimeWide is an arbitrary instant whose UnixNano is representable (the engine's Time stays within +-2^62 ns).
func TimeWide(name string) time.Time { return time.Unix(0, intIn(name)).UTC() }

// Dur is an arbitrary duration.
func Dur(name string) time.Duration { return time.Duration(intIn(name)) }

// Msg is an opaque non-nil message with symbolic identity: equal ids give the same pointer.
func Msg(name string) proto.Message {
	id := intIn(name)
	cur.mu.Lock()
	defer cur.mu.Unlock()
	if m, ok := cur.msgs[id]; ok {
		return m
	}
	m := wrapperspb.Int64(id)
	cur.msgs[id] = m
	return m
}

// MsgID returns the identity of a message made by Msg (0 for nil).
func MsgID(m proto.Message) int64 {
	if m == nil {
		return 0
	}
	if w, ok := m.(*wrapperspb.Int64Value); ok {
		return w.Value
	}
	return -1
}

// Err is an opaque non-nil error with symbolic identity.
func Err(name string) error {
	return &tokErr{id: intIn(name)}
}

type tokErr struct{ id int64 }

func (e *tokErr) Error() string { return fmt.Sprintf("vt error %d", e.id) }

// ErrID returns the identity of an error made by Err (0 for nil, -1 for foreign errors).
func ErrID(e error) int64 {
	if e == nil {
		return 0
	}
	if t, ok := e.(*tokErr); ok {
		return t.id
	}
	return -1
}

// UFBool is an uninterpreted boolean function: the k-th application's value comes from the replay.
func UFBool(fn string, args ...any) bool { return Bool("uf:" + fn) }

// UFInt is an uninterpreted integer function.
func UFInt(fn string, args ...any) int64 { return intIn("uf:" + fn) }

func Assume(c bool) {
	if !c {
		panic(rejected{})
	}
}

func Assert(c bool, label string) {
	if !c {
		cur.mu.Lock()
		cur.res.Failed = append(cur.res.Failed, label)
		cur.mu.Unlock()
	}
}

// AssertKF is Assert with a known-finding: cond is the characteristic condition of finding kf.
func AssertKF(c bool, label string, kf string, cond bool) {
	if !c {
		cur.mu.Lock()
		cur.res.Failed = append(cur.res.Failed, label)
		if cond {
			cur.res.Known = append(cur.res.Known, kf)
		}
		cur.mu.Unlock()
	}
}

func Reach(label string) {
	cur.mu.Lock()
	cur.res.Reached = append(cur.res.Reached, label)
	cur.mu.Unlock()
}

func Observe(key string, v any) {
	cur.mu.Lock()
	defer cur.mu.Unlock()
	k := key
	n := cur.counts["obs:"+key]
	cur.counts["obs:"+key] = n + 1
	if n > 0 {
		k = fmt.Sprintf("%s#%d", key, n)
	}
	cur.res.Obs[k] = render(v)
}

func render(v any) string {
	switch x := v.(type) {
	case nil:
		return "nil"
	case bool:
		return strconv.FormatBool(x)
	case string:
		return strconv.Quote(x)
	case float64:
		return "f64:" + strconv.FormatUint(math.Float64bits(x), 10)
	case float32:
		return "f32:" + strconv.FormatUint(uint64(math.Float32bits(x)), 10)
	case time.Duration:
		return strconv.FormatInt(int64(x), 10)
	}
	rv := reflect.ValueOf(v)
	switch rv.Kind() {
	case reflect.Int, reflect.Int8, reflect.Int16, reflect.Int32, reflect.Int64:
		return strconv.FormatInt(rv.Int(), 10)
	case reflect.Uint, reflect.Uint8, reflect.Uint16, reflect.Uint32, reflect.Uint64:
		return strconv.FormatUint(rv.Uint(), 10)
	case reflect.Bool:
		return strconv.FormatBool(rv.Bool())
	case reflect.String:
		return strconv.Quote(rv.String())
	}
	return fmt.Sprintf("%v", v)
}

// Try runs f and reports whether it panicked (with the panic text).
func Try(f func()) (panicked bool, msg string) {
	defer func() {
		if r := recover(); r != nil {
			if _, ok := r.(rejected); ok {
				panic(r)
			}
			panicked = true
			msg = fmt.Sprint(r)
		}
	}()
	f()
	return false, ""
}

func And(cs ...bool) bool {
	for _, c := range cs {
		if !c {
			return false
		}
	}
	return true
}
func Or(cs ...bool) bool {
	for _, c := range cs {
		if c {
			return true
		}
	}
	return false
}
func Implies(a, b bool) bool { return !a || b }
func Iff(a, b bool) bool     { return a == b }
func IteInt(c bool, a, b int) int {
	if c {
		return a
	}
	return b
}
func IteInt64(c bool, a, b int64) int64 {
	if c {
		return a
	}
	return b
}

// IteStr is c ? a : b over ordinal strings, without a fork in the engine.
func IteStr(c bool, a, b string) string {
	if c {
		return a
	}
	return b
}

// NoLeak asks the run to check that no goroutine outlives the harness.
func NoLeak() { cur.noLeak = true }

// AllowLeak states that goroutines may legitimately outlive this harness.
func AllowLeak() { cur.noLeak = false }

// Yield is a scheduling hint; natively a Gosched.
func Yield() { runtime.Gosched() }

// Freeze records a deep copy of m; CheckFrozen later verifies m still equals the copy.
func Freeze(m proto.Message, label string) {
	if m == nil || reflect.ValueOf(m).IsNil() {
		return
	}
	cur.mu.Lock()
	frozen = append(frozen, frozenMsg{m: m, copy: proto.Clone(m), label: label})
	cur.mu.Unlock()
}

type frozenMsg struct {
	m, copy proto.Message
	label   string
}

var frozen []frozenMsg

// CheckFrozen asserts that every frozen message is unchanged.
func CheckFrozen() {
	for _, f := range frozen {
		if !proto.Equal(f.m, f.copy) {
			Assert(false, "frozen:"+f.label)
		}
	}
}

// RunCase runs one case natively (repeatedly, for schedule-dependent cases, until a run fails).
func RunCase(c Case) (res Result) {
	n := c.Repeat
	if n < 1 {
		n = 1
	}
	if n > 1 {
		// schedule-dependent case: widen the race windows at the library's named yield points with random short pauses
		rng := rand.New(rand.NewSource(int64(len(c.ID)) + 12345))
		var rmu sync.Mutex
		// PCT-style perturbation: in every run one randomly chosen yield-point call (the "change point") is held for
		// a long time so that the other goroutines overtake it; every other call gets at most a tiny pause
		verifhook.Hook = func(point string) {
			k := hookCalls.Add(1)
			rmu.Lock()
			victim := runVictim
			r := rng.Intn(8)
			rmu.Unlock()
			if k-runStart == victim {
				time.Sleep(3 * time.Millisecond)
				return
			}
			switch r {
			case 0:
				time.Sleep(50 * time.Microsecond)
			case 1:
				runtime.Gosched()
			}
		}
		pickVictim = func() {
			rmu.Lock()
			runStart = hookCalls.Load()
			runVictim = int64(1 + rng.Intn(14))
			rmu.Unlock()
		}
		defer func() { verifhook.Hook = nil; pickVictim = nil }()
	}
	started := time.Now()
	for i := 0; i < n || (c.Repeat > 1 && i < 400000 && time.Since(started) < 6*time.Second); i++ {
		// (a schedule-dependent case whose runs are cheap is repeated beyond Repeat for up to six seconds: windows of a
		// few instructions without a yield point inside need tens of thousands of attempts)
		if pickVictim != nil {
			pickVictim()
		}
		res = runOnce(c)
		res.Runs = i + 1
		res.HookCalls = int(hookCalls.Load())
		if len(res.Failed) > 0 || res.Panic != "" || res.Leaked > 0 || res.Rejected {
			return res
		}
	}
	return res
}

func runOnce(c Case) (res Result) {
	cur = &state{c: c, counts: map[string]int{}, msgs: map[int64]proto.Message{}}
	cur.res = Result{ID: c.ID, Harness: c.Harness, Obs: map[string]string{}}
	frozen = nil
	f, ok := registry[c.Harness]
	if !ok {
		cur.res.Panic = "unknown harness " + c.Harness
		return cur.res
	}
	before := runtime.NumGoroutine()
	finished := make(chan struct{})
	go func() {
		defer close(finished)
		defer func() {
			if r := recover(); r != nil {
				if _, ok := r.(rejected); ok {
					cur.res.Rejected = true
					return
				}
				cur.res.Panic = fmt.Sprint(r)
				cur.res.Stack = trimStack(string(debug.Stack()))
			}
		}()
		f()
	}()
	select {
	case <-finished:
	case <-time.After(10 * time.Second):
		// the harness did not return: a deadlock (or a blocked-forever call) in the code under test
		cur.mu.Lock()
		r := cur.res
		r.Panic = "vt: harness did not finish within 10s (deadlock?)"
		r.Leaked = runtime.NumGoroutine() - before
		cur.mu.Unlock()
		return r
	}
	if cur.noLeak {
		deadline := time.Now().Add(300 * time.Millisecond)
		for runtime.NumGoroutine() > before && time.Now().Before(deadline) {
			time.Sleep(5 * time.Millisecond)
		}
		if n := runtime.NumGoroutine() - before; n > 0 {
			cur.res.Leaked = n
		}
	}
	sort.Strings(cur.res.Failed)
	return cur.res
}

func trimStack(s string) string {
	lines := strings.Split(s, "\n")
	if len(lines) > 40 {
		lines = lines[:40]
	}
	return strings.Join(lines, "\n")
}

// RunReplay executes every case of the file named by VT_REPLAY and writes results to VT_OUT.
func RunReplay(fatal func(args ...any)) {
	in := os.Getenv("VT_REPLAY")
	if in == "" {
		return
	}
	data, err := os.ReadFile(in)
	if err != nil {
		fatal(err)
		return
	}
	var cases []Case
	if err := json.Unmarshal(data, &cases); err != nil {
		fatal(err)
		return
	}
	var results []Result
	hangs := map[string]int{}
	for _, c := range cases {
		if c.Repeat <= 1 && !c.Candidate && hangs[c.Harness] >= 3 {
			results = append(results, Result{ID: c.ID, Harness: c.Harness, Skipped: true})
			continue
		}
		r := RunCase(c)
		if strings.HasPrefix(r.Panic, "vt: harness did not finish") {
			hangs[c.Harness]++
		}
		results = append(results, r)
	}
	out, _ := json.MarshalIndent(results, "", " ")
	if p := os.Getenv("VT_OUT"); p != "" {
		if err := os.WriteFile(p, out, 0o644); err != nil {
			fatal(err)
		}
	} else {
		os.Stdout.Write(out)
	}
}

// Bound returns the bound named k for the running tier (quick or thorough value).
func Bound(k string, quick, thorough int) int {
	r, ok := cur.c.Inputs["bound:"+k]
	if ok {
		var s string
		if json.Unmarshal(r, &s) == nil {
			v, _ := strconv.Atoi(s)
			return v
		}
	}
	if _, thoroughTier := cur.c.Inputs["bound:__thorough"]; thoroughTier {
		return thorough
	}
	return quick
}

// StrOrd is an arbitrary string that the code under test only compares (==, <): "" or a 16-digit hex ordinal.
func StrOrd(name string) string {
	r, ok := raw(name)
	if !ok {
		return ""
	}
	var s string
	json.Unmarshal(r, &s)
	k, _ := strconv.ParseUint(s, 10, 64)
	if k == 0 {
		return ""
	}
	return fmt.Sprintf("%016x", k)
}

// IntF is an integer-valued float32 of magnitude <= 2^16 (exact integer abstraction in the engine).
func IntF(name string) float32 { return float32(intIn(name)) }

// Settle waits until every other goroutine has run as far as it can (engine: exact; natively: a short sleep).
func Settle() { time.Sleep(30 * time.Millisecond) }

// Unwind raises the engine's loop unwinding bound (no effect natively).
func Unwind(n int) {}
